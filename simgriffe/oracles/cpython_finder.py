"""CPython's own module finder as an oracle, without executing any analysed code.

`PathFinder.find_spec` gives first-match-wins over search paths, package > extension > source > bytecode
precedence inside one directory and native namespace portions; `pkgutil.iter_modules` gives what the package
walker finds.  For pkgutil/pkg_resources-style namespace packages the `__path__` the package would have after its
`__init__` ran is computed with the real `pkgutil.extend_path`.  importlib's FileFinder lists directories through
its private `_os.listdir`, so it is not perturbed by the simulator's listing seam.
"""

from __future__ import annotations

import importlib
import importlib.machinery as mach
import os
import pkgutil
import sys

SOURCE_SUFFIXES = tuple(mach.SOURCE_SUFFIXES)
EXT_SUFFIXES = tuple(mach.EXTENSION_SUFFIXES)
BYTECODE_SUFFIXES = tuple(mach.BYTECODE_SUFFIXES)


def _loader_kind(origin: str | None) -> str | None:
    if origin is None:
        return None
    if origin.endswith(EXT_SUFFIXES):
        return "ext"
    if origin.endswith(SOURCE_SUFFIXES):
        return "source"
    if origin.endswith(BYTECODE_SUFFIXES):
        return "bytecode"
    return "other"


def _is_pkg_style_ns(init_file: str) -> bool:
    try:
        with open(init_file, encoding="utf8", errors="replace") as fh:
            text = fh.read()
    except OSError:
        return False
    return "extend_path(__path__, __name__)" in text or "declare_namespace(__name__)" in text


class Found:
    __slots__ = ("name", "origin", "dirs", "kind", "loader")

    def __init__(self, name, origin, dirs, kind, loader):
        self.name, self.origin, self.dirs, self.kind, self.loader = name, origin, dirs, kind, loader

    def as_tuple(self):
        return (self.name, self.origin, tuple(self.dirs) if self.dirs is not None else None, self.kind, self.loader)


def find(fullname: str, path: list[str], all_search_paths: list[str]) -> Found | None:
    """What `import fullname` would bind, given the parent's __path__ (or sys.path for top-level names)."""
    # PathFinder.find_spec minus the NamespacePath wrapper (which wants the parent package in sys.modules):
    # _get_spec is the part that walks the path entries and applies the precedence rules.
    spec = mach.PathFinder._get_spec(fullname, path)
    if spec is None:
        return None
    if spec.loader is None:
        if not spec.submodule_search_locations:
            return None
        return Found(fullname, None, list(spec.submodule_search_locations), "namespace", None)
    origin = spec.origin if spec.has_location else None
    locs = list(spec.submodule_search_locations) if spec.submodule_search_locations is not None else None
    if origin is None and locs is not None:
        return Found(fullname, None, locs, "namespace", None)
    if locs is not None:
        kind = "package"
        if origin.endswith(SOURCE_SUFFIXES) and _is_pkg_style_ns(origin) and "." not in fullname:
            # __path__ after `__path__ = extend_path(__path__, __name__)` ran, computed without running it
            old = sys.path
            sys.path = list(all_search_paths)
            try:
                locs = list(pkgutil.extend_path(list(locs), fullname))
            finally:
                sys.path = old
            kind = "pkgns"
        return Found(fullname, origin, locs, kind, _loader_kind(origin))
    return Found(fullname, origin, None, "module", _loader_kind(origin))


def candidate_stems(directory: str) -> list[str]:
    import inspect

    out = set()
    try:
        names = os.listdir(directory)
    except OSError:
        return []
    for n in names:
        full = os.path.join(directory, n)
        # importlib.import_module() accepts any non-dotted name, identifier or not (pkgutil yields them too)
        if os.path.isdir(full):
            if "." not in n and n != "__pycache__":
                out.add(n)
        else:
            m = inspect.getmodulename(n)
            if m and m != "__init__" and "." not in m:
                out.add(m)
    return sorted(out)


def importable_tree(top: str, search_paths: list[str]) -> dict[str, Found]:
    """Every dotted name under `top` that `import` could bind (follows namespace sub-packages too)."""
    out: dict[str, Found] = {}
    root = find(top, search_paths, search_paths)
    if root is None:
        return out

    def rec(found: Found, depth: int):
        out[found.name] = found
        if found.dirs is None or depth > 6:
            return
        stems = []
        for d in found.dirs:
            for s in candidate_stems(d):
                if s not in stems:
                    stems.append(s)
        for s in stems:
            sub = find(f"{found.name}.{s}", found.dirs, search_paths)
            if sub is not None:
                rec(sub, depth + 1)

    rec(root, 0)
    return out


def walker_tree(top: str, search_paths: list[str]) -> dict[str, bool]:
    """What pkgutil.walk_packages would yield under `top` (name -> ispkg), computed without importing anything:
    pkgutil.iter_modules per package, sub-package __path__ taken from find()."""
    out: dict[str, bool] = {}
    root = find(top, search_paths, search_paths)
    if root is None:
        return out
    out[top] = root.dirs is not None

    def rec(found: Found, depth: int):
        if found.dirs is None or depth > 6:
            return
        for info in pkgutil.iter_modules(found.dirs, found.name + "."):
            if info.name in out:
                continue
            out[info.name] = info.ispkg
            sub = find(info.name, found.dirs, search_paths)
            if sub is not None and info.ispkg:
                rec(sub, depth + 1)

    rec(root, 0)
    return out


def forget(root: str) -> None:
    """Drop importer caches for paths under `root` (worlds are short-lived)."""
    for key in list(sys.path_importer_cache):
        if key.startswith(root):
            del sys.path_importer_cache[key]
    importlib.invalidate_caches()
