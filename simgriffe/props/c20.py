"""C20 - Loading from Git leaves repository and filesystem untouched on every path.

World: a real Git repository built per run with deterministic identities and dates: 2-5 commits of a small package
(root or src/ layout; a commit with a syntax error, one without the package, one with undecodable bytes), tags,
branches with slashes, optional colliding user branch, dirty working tree, detached HEAD, a live or stale user
worktree.  History: 1-3 operations (load_git, check(), main(["check", ...]), retry of the previous one).
Faults, each at a plan-chosen point: the git subprocess steps up to and including `worktree add` (spawn OSError,
non-zero exit, KeyboardInterrupt before spawn / after the child completed), reads inside the checkout (OSError /
undecodable / truncated), an extension raising Exception / KeyboardInterrupt / SystemExit at its n-th hook call or
writing files into the checkout, bytecode caching by inspected imports.
Invariant after every operation, whatever its outcome: full snapshot equality of the repository and no temporary
checkout left behind; after a successful one, the returned objects stay usable.
"""

from __future__ import annotations

import hashlib
import io
import os
import pathlib
import shutil
import subprocess as real_subprocess
import sys
import tempfile
from pathlib import Path

from simgriffe import core
from simgriffe.seams import SHM, ListingSeam

GIT_ENV = {
    "GIT_AUTHOR_NAME": "Sim",
    "GIT_AUTHOR_EMAIL": "sim@example.invalid",
    "GIT_COMMITTER_NAME": "Sim",
    "GIT_COMMITTER_EMAIL": "sim@example.invalid",
    "GIT_CONFIG_GLOBAL": "/dev/null",
    "GIT_CONFIG_SYSTEM": "/dev/null",
    "GIT_CONFIG_NOSYSTEM": "1",
    "LC_ALL": "C",
}
TAGS = ["v1", "1.0.0", "release/1.0", "v2"]
BRANCHES = ["dev", "feature/x"]
CLEANUP = ("remove", "prune", "forget", "branch-D")


# ------------------------------------------------------------------------------------------------
# Generation


def _expand(content):
    """`<BIG:n>` on the first line stands for n filler lines and a last definition appended to the rest (a generated
    file of more than ten thousand lines does not belong in a replay file)."""
    if content.startswith("<BIG:"):
        head, rest = content.split("\n", 1)
        n = int(head[5:-1])
        return rest + "# generated table, do not edit\n" * n + "\n\ndef tail():\n    \"\"\"last definition of a very long module\"\"\"\n    return 0\n"
    return content


def _version(rng, i, kind, sibling=False, nstop=False):
    """One version of the package: relpath (inside the package dir; `../_pkg/x.py` = private sibling package) -> content."""
    params = ["a", "b", "c"][: rng.choice([1, 2, 3])]
    sig = ", ".join(params)
    if sibling and kind in ("normal", "inspectable"):
        # the layout Griffe itself uses: the public package only re-exports what a private sibling package defines
        return {
            "__init__.py": f'"""pkg v{i}"""\nfrom _pkg.a import f, K\n__all__ = ["f", "K"]\n',
            "../_pkg/__init__.py": "",
            "../_pkg/a.py": f'def f({sig}):\n    """f v{i}"""\n    return 1\n\n\nclass K:\n    """K v{i}"""\n\n    def m(self, x):\n        return x\n',
        }
    files = {
        "__init__.py": f'"""pkg v{i}"""\nfrom pkg.a import f\n__all__ = ["f"]\n',
        "a.py": f'def f({sig}):\n    """f v{i}"""\n    return 1\n\n\nclass K:\n    """K v{i}"""\n\n    def m(self, x):\n        return x\n',
    }
    if rng.random() < 0.6:
        files["b.py"] = f"from pkg.a import K\n\n\ndef g(x={i}):\n    return K()\n"
    if rng.random() < 0.06:
        # scale: a module far longer than anything else in the package
        files["a.py"] = f"<BIG:{rng.choice([3000, 10500, 70000])}>\n" + files["a.py"]
    if rng.random() < 0.15:
        # a tracked symbolic link to a module of the package (`compat.py -> a.py`): two file names, one file
        files["compat.py"] = "<LINK:a.py>"
    if rng.random() < 0.2:
        # a namespace sub-package (a directory without __init__): it comes and goes between versions
        files["nsp/x.py"] = f"def h(a={i}):\n    return a\n"
        files["__init__.py"] = files["__init__.py"].replace('__all__ = ["f"]', '__all__ = ["f", "nsp"]')
    if nstop:
        # the package is a native namespace package: no __init__.py at its top (nor anywhere else)
        files.pop("__init__.py", None)
    if kind == "syntax":
        files["a.py"] = "def f(:\n    pass\n"
    elif kind == "undecodable":
        files["b.py"] = b"\xff\xfe x = 1\n".decode("latin-1")
    elif kind == "inspectable":
        files["a.py"] += "\nimport sys\nMARK = len(sys.argv)\n"
    return files


def generate(rng, opts):
    layout = rng.choice(["root", "root", "src"])
    n_commits = rng.choice([2, 3, 3, 4, 5])
    sibling = rng.random() < 0.35
    nstop = not sibling and rng.random() < 0.1
    commits = []
    for i in range(n_commits):
        kind = "normal"
        r = rng.random()
        if i > 0 and r < 0.08:
            kind = "syntax"
        elif i > 0 and r < 0.14:
            kind = "nopkg"
        elif r < 0.2:
            kind = "undecodable"
        commits.append({"kind": kind, "files": {} if kind == "nopkg" else _version(rng, i, kind, sibling, nstop), "tags": [], "branches": []})
    for t in rng.sample(TAGS, rng.choice([1, 2, 3])):
        commits[rng.randrange(n_commits)]["tags"].append(t)
    for b in rng.sample(BRANCHES, rng.choice([0, 1, 2])):
        commits[rng.randrange(n_commits)]["branches"].append(b)
    all_tags = [t for c in commits for t in c["tags"]]
    all_branches = [b for c in commits for b in c["branches"]]
    state = {
        # the user may own a branch that is named like the temporary one of any reference
        "collide_branch": rng.choice([False] * 6 + ["v1", rng.choice(refs_pool)]) if (refs_pool := all_tags + all_branches + ["HEAD", "main", "@", "@"]) else False,
        # ... or a *tag* named like the temporary branch of some reference (not a branch: nothing collides)
        "collide_tag": rng.choice([False] * 7 + ["v1", rng.choice(all_tags + all_branches + ["HEAD", "main"])]),
        "detached": rng.random() < 0.2,
        # directory names are the user's choice: they may look like a (normalised) reference
        "repo_dirname": rng.choice(["repo", "repo", "repo", "main", "v1", "HEAD"]),
        # (file names are bytes: `caf\udce9` stands for a Latin-1 name, b"caf\xe9", which is not valid UTF-8)
        "user_worktree_dirname": rng.choice(["user-wt", "user-wt", "v1", "feature-x", "release-1-0", "dev", "main", "1-0-0", "caf\udce9", "caf\udce9"]),
        # the user may be working in a linked worktree of their repository (where .git is a file) and run Griffe there
        "work_in_linked_worktree": rng.random() < 0.25,
        # $TMPDIR reached through a symbolic link (macOS /tmp, /var): Git reports real paths
        "tmp_symlinked": rng.random() < 0.2,
        # $TMPDIR is a folder of the project itself (CI set-ups do that): temporary paths are below the working directory
        "tmp_in_repo": rng.random() < 0.12,
        # a post-checkout hook configured in the repository (git-lfs installs one): it runs at the end of
        # `git worktree add`, whose exit status is the hook's
        "post_checkout_hook": rng.choice([None, None, None, None, "ok", "fails"]),
        # a remote-tracking branch (what `griffe check --against origin/main` uses) and the user's
        # branch.autoSetupMerge setting: `git worktree add -b` then writes upstream configuration for the new branch
        "remote_tracking": rng.random() < 0.3,
        "auto_setup_merge": rng.choice([None, None, None, "always", "false"]),
        # Griffe is run from a Git hook (pre-commit, pre-push...): Git exports the location of the index and of the
        # repository to the hook's environment
        # ("other-repo": the hook belongs to *another* repository - a superproject checking a sibling checkout - so the
        # variables name that repository; only judged for load_git with an explicit `repo`)
        "hook_env": rng.choice([None, None, None, None, "index", "index+dir", "other-repo"]),
        "submodule": rng.random() < 0.12,
        # the user's message language: Git's refusals and complaints come translated (catalogues fr/de are installed)
        "locale": rng.choice([None, None, None, None, None, "fr", "de"]),
        "dirty": rng.sample(["modified", "staged", "untracked", "ignored"], rng.choice([0, 0, 1, 2, 3])),
        "user_worktree": rng.choice([None, None, None, None, "live", "live", "live", "stale"]) if all_branches else None,
    }
    if opts.get("no_known") and state["user_worktree"] == "stale":
        state["user_worktree"] = "live"
    # incl. Git's shorthands: `@` is HEAD; they normalise to an empty temporary name
    refs = all_tags + all_branches + ["HEAD", "main", "HEAD~1", "@", "@^", "HEAD^"]
    if state["remote_tracking"]:
        refs += ["origin/main", "origin/main"]
    ops = []
    for _ in range(rng.choice([1, 1, 2, 2, 3])):
        r = rng.random()
        if ops and r < 0.2:
            ops.append({"op": "retry"})
            continue
        ref = rng.choice(refs) if rng.random() < 0.88 else "no-such-ref"
        faults = []
        n_faults = rng.choice([0, 0, 1, 1, 1, 2])
        for _ in range(n_faults):
            fk = rng.choice(["git", "git", "read", "ext", "ext", "ext_write", "bytecode"])
            if opts.get("no_known") and fk in ("ext_write", "bytecode"):
                fk = "ext"
            if fk == "git":
                how = rng.choice(["oserror", "nonzero", "kbi_before", "kbi_after", "killed_midway", "fails_after_branch"])
                at = rng.choice(["assert", "toplevel", "tag", "add", "add"])
                if rng.random() < 0.3 and not opts.get("no_cleanup_faults"):
                    # one interruption (or one transient spawn failure) while the temporary checkout is being removed:
                    # the clean-up commands are idempotent, so an implementation can finish the job before propagating
                    at = rng.choice(CLEANUP)
                    how = rng.choice(["kbi_before", "kbi_after", "kbi_after", "oserror"])
                faults.append({"kind": "git", "at": at, "nth": rng.choice([0, 0, 1]), "how": how})
            elif fk == "read":
                faults.append({"kind": "read", "file": rng.choice(["a.py", "b.py", "__init__.py"]), "how": rng.choice(["oserror", "undecodable", "truncated"])})
            elif fk == "ext":
                faults.append({"kind": "ext", "nth": rng.choice([0, 1, 2, 3, 5, 8, 13, 21, 40]), "how": rng.choice(["exception", "kbi", "systemexit"])})
            elif fk == "ext_write":
                faults.append({"kind": "ext", "nth": rng.choice([0, 1, 3, 8]), "how": rng.choice(["write_file", "write_file", "detach_checkout", "chdir", "remove_checkout"])})
            else:
                faults.append({"kind": "bytecode"})
        # the order in which the checkout's directories are listed is the file system's choice
        listing = rng.choice([None, None, {"mode": "sorted"}, {"mode": "reversed"}, {"mode": "hash", "key": rng.randrange(1 << 30)}])
        if r < 0.6:
            ops.append({"listing": listing, "thread": rng.random() < 0.2, "op": "load_git", "ref": ref, "form": rng.choice(["name", "name", "path"]), "repo_arg": rng.choice(["abs", "abs", "dot", "relative", "pathobj", "child", "dotchild"]), "resolve_aliases": rng.random() < 0.5, "force_inspection": any(f["kind"] == "bytecode" for f in faults), "faults": faults})
        else:
            base = rng.choice([None, None, rng.choice(refs)])
            ops.append({"listing": listing, "thread": rng.random() < 0.2, "op": "check", "api": rng.choice(["check", "main"]), "against": ref if rng.random() < 0.85 else None, "base_ref": base, "style": rng.choice([None, "oneline", "verbose", "markdown", "github"]), "faults": faults})
    return {"world": {"layout": layout, "commits": commits, "state": state, "sibling": sibling}, "ops": ops}


# ------------------------------------------------------------------------------------------------
# Repository construction and snapshots


def _git(repo, *args, check=True, env=None):
    p = real_subprocess.run(["git", "-C", repo, *args], capture_output=True, text=True, errors="surrogateescape", env=env or _env(), check=False)
    if check and p.returncode:
        raise core.HarnessError(f"git {' '.join(args)} failed in harness: {p.stderr[:300]}")
    return p.stdout


HOOK_VARS = ("GIT_INDEX_FILE", "GIT_DIR", "GIT_WORK_TREE", "GIT_PREFIX")


def _env(date=None):
    """Environment of the harness's own git commands (never the hook variables the simulated user may have)."""
    env = dict(os.environ)
    for k in HOOK_VARS:
        env.pop(k, None)
    env.update(GIT_ENV)
    if date is not None:
        stamp = f"2024-01-0{1 + date % 9}T00:00:{date % 60:02d}+00:00"
        env["GIT_AUTHOR_DATE"] = stamp
        env["GIT_COMMITTER_DATE"] = stamp
    return env


def build_repo(root, world):
    repo = os.path.join(root, world["state"].get("repo_dirname", "repo"))
    os.makedirs(repo)
    _git(repo, "init", "-q", "-b", "main")
    pkg_dir = os.path.join(repo, "src", "pkg") if world["layout"] == "src" else os.path.join(repo, "pkg")
    with open(os.path.join(repo, ".gitignore"), "w") as fh:
        fh.write("*.log\n")
    with open(os.path.join(repo, "README.md"), "w") as fh:
        fh.write("sim\n")
    if world["state"].get("submodule"):
        # the repository has a submodule that this clone never initialised (what a plain `git clone` leaves):
        # .gitmodules and a gitlink entry are committed, nothing about it is in .git/config or .git/modules
        lib = os.path.join(root, "lib-origin")
        os.makedirs(lib)
        _git(lib, "init", "-q", "-b", "main")
        with open(os.path.join(lib, "lib.py"), "w") as fh:
            fh.write("x = 1\n")
        _git(lib, "add", "-A", env=_env(0))
        _git(lib, "commit", "-q", "-m", "lib", env=_env(0))
        sha = _git(lib, "rev-parse", "HEAD").strip()
        with open(os.path.join(repo, ".gitmodules"), "w") as fh:
            fh.write(f'[submodule "vendor/lib"]\n\tpath = vendor/lib\n\turl = {lib}\n')
        os.makedirs(os.path.join(repo, "vendor", "lib"))
        _git(repo, "update-index", "--add", "--cacheinfo", f"160000,{sha},vendor/lib")
    for i, c in enumerate(world["commits"]):
        for d in (pkg_dir, os.path.join(os.path.dirname(pkg_dir), "_pkg")):
            if os.path.isdir(d):
                shutil.rmtree(d)
        if c["files"]:
            os.makedirs(pkg_dir)
            for rel, content in c["files"].items():
                content = _expand(content)
                data = content.encode("latin-1") if c["kind"] == "undecodable" and rel == "b.py" else content.encode("utf8")
                full = os.path.normpath(os.path.join(pkg_dir, rel))
                os.makedirs(os.path.dirname(full), exist_ok=True)
                if content.startswith("<LINK:"):
                    os.symlink(content[6:-1], full)
                    continue
                with open(full, "wb") as fh:
                    fh.write(data)
        with open(os.path.join(repo, "README.md"), "a") as fh:
            fh.write(f"commit {i}\n")
        _git(repo, "add", "-A", env=_env(i))
        _git(repo, "commit", "-q", "-m", f"c{i}", env=_env(i))
        for t in c["tags"]:
            _git(repo, "tag", t, env=_env(i))
        for b in c["branches"]:
            _git(repo, "branch", b, env=_env(i))
    st = world["state"]
    if st["collide_branch"]:
        import re as _re

        ref = "v1" if st["collide_branch"] is True else st["collide_branch"]
        norm = _re.sub(r"[-\s]+", "-", _re.sub(r"[^\w]+", "-", ref)).strip("-")
        _git(repo, "branch", f"griffe-{norm}", "HEAD~1", check=False)
    if st.get("collide_tag"):
        import re as _re

        norm = _re.sub(r"[-\s]+", "-", _re.sub(r"[^\w]+", "-", st["collide_tag"])).strip("-")
        _git(repo, "tag", f"griffe-{norm}", "HEAD~1", check=False)
    if st["user_worktree"]:
        branches = [b for c in world["commits"] for b in c["branches"]]
        wt = os.path.join(root, "wts", st.get("user_worktree_dirname", "user-wt"))
        os.makedirs(os.path.dirname(wt), exist_ok=True)
        _git(repo, "worktree", "add", "-q", wt, branches[0])
        if st["user_worktree"] == "stale":
            shutil.rmtree(wt)
    if st["detached"]:
        _git(repo, "checkout", "-q", "--detach", "HEAD~1")
    if os.path.isdir(pkg_dir):
        if "modified" in st["dirty"] and os.path.exists(os.path.join(pkg_dir, "a.py")):
            with open(os.path.join(pkg_dir, "a.py"), "a") as fh:
                fh.write("\n# local edit\n")
        if "staged" in st["dirty"]:
            with open(os.path.join(pkg_dir, "staged.py"), "w") as fh:
                fh.write("x = 1\n")
            _git(repo, "add", os.path.join(pkg_dir, "staged.py"))
    if "untracked" in st["dirty"]:
        with open(os.path.join(repo, "untracked.txt"), "w") as fh:
            fh.write("u\n")
    if "ignored" in st["dirty"]:
        with open(os.path.join(repo, "debug.log"), "w") as fh:
            fh.write("l\n")
    if st.get("remote_tracking"):
        _git(repo, "config", "remote.origin.url", os.path.join(root, "no-such-remote.git"))
        _git(repo, "config", "remote.origin.fetch", "+refs/heads/*:refs/remotes/origin/*")
        _git(repo, "update-ref", "refs/remotes/origin/main", "refs/heads/main")
    if st.get("auto_setup_merge"):
        _git(repo, "config", "branch.autoSetupMerge", st["auto_setup_merge"])
    if st.get("post_checkout_hook"):
        hook = os.path.join(repo, ".git", "hooks", "post-checkout")
        os.makedirs(os.path.dirname(hook), exist_ok=True)
        with open(hook, "w") as fh:
            fh.write("#!/bin/sh\n" + ("echo 'this repository is configured for a tool that is not installed' >&2\nexit 2\n" if st["post_checkout_hook"] == "fails" else "exit 0\n"))
        os.chmod(hook, 0o755)
    return repo


def snapshot(repo, root, tmpdir):
    snap = {}
    snap["HEAD"] = (_git(repo, "symbolic-ref", "-q", "HEAD", check=False).strip(), _git(repo, "rev-parse", "HEAD").strip())
    snap["refs"] = _git(repo, "for-each-ref", "--format=%(refname) %(objectname)")
    snap["index"] = _git(repo, "ls-files", "-s")
    snap["status"] = _git(repo, "status", "--porcelain", "--ignored", "-uall")
    snap["worktrees"] = _git(repo, "worktree", "list", "--porcelain").replace(root, "<R>")
    wt_admin = os.path.join(repo, ".git", "worktrees")
    snap["worktree-admin"] = sorted(os.listdir(wt_admin)) if os.path.isdir(wt_admin) else []
    h = hashlib.sha256()
    for dirpath, dirnames, filenames in os.walk(repo):
        dirnames[:] = sorted(d for d in dirnames if d != ".git")
        for fn in sorted(filenames):
            full = os.path.join(dirpath, fn)
            h.update(os.path.relpath(full, repo).encode())
            with open(full, "rb") as fh:
                h.update(fh.read())
    snap["files"] = h.hexdigest()
    snap["tmp"] = sorted(os.listdir(tmpdir))
    # other facets of "exactly as it was": configuration, stash, hooks, the set of files directly under .git
    gitdir = _git(repo, "rev-parse", "--git-common-dir").strip()
    gitdir = gitdir if os.path.isabs(gitdir) else os.path.join(repo, gitdir)
    try:
        with open(os.path.join(gitdir, "config"), "rb") as fh:
            snap["config"] = hashlib.sha256(fh.read()).hexdigest()
    except OSError:
        snap["config"] = None
    snap["stash"] = _git(repo, "stash", "list", check=False)
    snap["gitdir-entries"] = sorted(n for n in os.listdir(gitdir) if n not in ("index", "ORIG_HEAD", "FETCH_HEAD", "COMMIT_EDITMSG", "logs", "packed-refs", "worktrees"))  # files Git itself creates or drops as a side effect of ref and worktree bookkeeping
    return snap


def snap_diff(a, b):
    if "unusable" in b and "unusable" not in a:
        return "unusable", "a working repository", b["unusable"]
    for k in a:
        if a[k] != b.get(k):
            return k, a[k], b.get(k)
    return None


def snapshot_after(repo, root, tmpdir):
    """The snapshot taken after an operation: a repository (or linked worktree) that git itself can no longer read is
    a finding about the operation, not an error of the harness."""
    try:
        return snapshot(repo, root, tmpdir)
    except core.HarnessError as e:
        return {"unusable": str(e)[:300]}


# ------------------------------------------------------------------------------------------------
# Seams


class SubprocessShim:
    """Stands in for the `subprocess` module inside _griffe.git."""

    def __init__(self, faults, ctx):
        self.DEVNULL = real_subprocess.DEVNULL
        self.PIPE = real_subprocess.PIPE
        self.STDOUT = real_subprocess.STDOUT
        self.CalledProcessError = real_subprocess.CalledProcessError
        self.CompletedProcess = real_subprocess.CompletedProcess
        self.faults = [f for f in faults if f["kind"] == "git"]
        self.ctx = ctx
        self.counts = {}
        self.sites = []
        self.cleanup_fault_fired = False

    @staticmethod
    def site(args):
        a = list(args)
        if "--is-inside-work-tree" in a:
            return "assert"
        if "--show-toplevel" in a:
            return "toplevel"
        if "tag" in a and "-l" in a:
            return "tag"
        if "worktree" in a and "add" in a:
            return "add"
        if "worktree" in a and "remove" in a:
            return "remove"
        if "worktree" in a and "prune" in a:
            return "prune"
        if "--git-common-dir" in a:
            return "forget"  # the look-up that precedes the targeted removal of the worktree's registration
        if "branch" in a and "-D" in a:
            return "branch-D"
        return "other"

    def _call(self, fn, args, kw):
        site = self.site(args)
        n = self.counts.get(site, 0)
        self.counts[site] = n + 1
        self.sites.append(site)
        kw.setdefault("env", {**os.environ, **GIT_ENV})  # what Griffe's child inherits (incl. hook variables, if any)
        if not kw.get("capture_output") and "stderr" not in kw:
            kw["stderr"] = real_subprocess.DEVNULL  # git's own complaints go to the inherited fd 2 otherwise
        # clean-up commands are only ever hit by ONE fault per operation, and only by an interruption or a transient
        # spawn failure (no implementation could clean up if they kept failing)
        cleanup_ok = site not in CLEANUP or not self.cleanup_fault_fired
        if cleanup_ok:
            for f in self.faults:
                if f["at"] == site and f["nth"] == n and (site not in CLEANUP or f["how"] in ("kbi_before", "kbi_after", "oserror")):
                    if site in CLEANUP:
                        self.cleanup_fault_fired = True
                    self.ctx.fault(f"git-{site}-{f['how']}")
                    if f["how"] == "oserror":
                        raise OSError(12, "Cannot allocate memory (injected spawn failure)")
                    if f["how"] == "kbi_before":
                        raise KeyboardInterrupt
                    if f["how"] == "nonzero":
                        if kw.get("check") or fn is real_subprocess.check_output:
                            raise real_subprocess.CalledProcessError(128, args, output=b"", stderr=b"fatal: injected")
                        text = kw.get("text")
                        return real_subprocess.CompletedProcess(args, 128, stdout="" if text else b"", stderr="fatal: injected" if text else b"fatal: injected")
                    if f["how"] == "kbi_after":
                        fn(args, **kw)
                        raise KeyboardInterrupt
                    if f["how"] == "fails_after_branch":
                        # `git worktree add -b` creates the branch first; when populating the worktree then fails (a
                        # required smudge filter that errors out, a full disk) git removes the worktree it had started
                        # - not the branch - and exits with 128 (observed with filter.<x>.required, git 2.39)
                        if site == "add":
                            a = list(args)
                            i = a.index("add")
                            quiet = {"stdout": real_subprocess.DEVNULL, "stderr": real_subprocess.DEVNULL, "env": kw.get("env") or _env()}
                            if real_subprocess.run(a, **quiet).returncode == 0:
                                real_subprocess.run([*a[: i - 1], "worktree", "remove", "--force", "--force", a[-2]], **quiet)
                        if kw.get("check") or fn is real_subprocess.check_output:
                            raise real_subprocess.CalledProcessError(128, args, output=b"", stderr=b"fatal: smudge filter failed (injected)")
                        text = kw.get("text")
                        return real_subprocess.CompletedProcess(args, 128, stdout="" if text else b"", stderr="fatal: smudge filter failed (injected)" if text else b"fatal: smudge filter failed (injected)")
                    if f["how"] == "killed_midway":
                        # the git child dies (SIGKILL: OOM killer, a supervisor's timeout) in the middle of its work
                        if site == "add":
                            self._half_done_worktree_add(list(args), kw)
                        if kw.get("check") or fn is real_subprocess.check_output:
                            raise real_subprocess.CalledProcessError(-9, args, output=b"", stderr=b"")
                        text = kw.get("text")
                        return real_subprocess.CompletedProcess(args, -9, stdout="" if text else b"", stderr="" if text else b"")
        return fn(args, **kw)

    def _half_done_worktree_add(self, args, kw):
        """What `git worktree add -b B <dir> <ref>` leaves when it is killed while checking files out (observed with a
        blocking smudge filter and SIGKILL, git 2.39): branch B exists, the worktree is registered and still carries
        git's own lock with the reason `initializing`, its index is locked, the directory is partly populated."""
        i = args.index("add")
        head, rest = args[: i + 1], args[i + 1 :]
        env = kw.get("env") or _env()
        quiet = {"stdout": real_subprocess.DEVNULL, "stderr": real_subprocess.DEVNULL, "env": env}
        r = real_subprocess.run([*head, "--no-checkout", *rest], **quiet)
        if r.returncode != 0:
            return  # git refused before doing anything (unknown ref, branch exists): plain failure
        location = rest[-2]
        base = args[: i - 1]  # git -C <repo>
        real_subprocess.run([*base, "worktree", "lock", "--reason", "initializing", location], **quiet)
        admin = real_subprocess.run(["git", "-C", location, "rev-parse", "--git-dir"], capture_output=True, text=True, env=env).stdout.strip()
        if admin and os.path.isdir(admin):
            with open(os.path.join(admin, "index.lock"), "w"):
                pass
        with open(os.path.join(location, "half-written.txt"), "w") as fh:
            fh.write("partial checkout\n")

    def run(self, args, **kw):
        return self._call(real_subprocess.run, args, kw)

    def check_output(self, args, **kw):
        return self._call(real_subprocess.check_output, args, kw)


_real_read_text = pathlib.Path.read_text


class CheckoutReadSeam:
    def __init__(self, tmpdir, faults, ctx):
        self.tmpdir = os.path.realpath(tmpdir)
        self.faults = [f for f in faults if f["kind"] == "read"]
        self.ctx = ctx

    def __enter__(self):
        seam = self

        def patched(self, *a, **k):
            p = os.path.realpath(os.fspath(self))
            if p.startswith(seam.tmpdir + os.sep):
                for f in seam.faults:
                    if p.endswith("/pkg/" + f["file"]):
                        seam.ctx.fault("read-" + f["how"])
                        if f["how"] == "oserror":
                            raise OSError(5, "Input/output error (injected)", p)
                        if f["how"] == "undecodable":
                            return b"\xff\xfe\xfd".decode(k.get("encoding") or "utf8")
                        text = _real_read_text(self, *a, **k)
                        return text[: max(1, (2 * len(text)) // 3)]
            return _real_read_text(self, *a, **k)

        pathlib.Path.read_text = patched
        return self

    def __exit__(self, *a):
        pathlib.Path.read_text = _real_read_text
        return False


def make_fault_extension(griffe, faults, ctx, counter, tmp_prefix):
    ext_faults = [f for f in faults if f["kind"] == "ext"]

    class FaultExtension(griffe.Extension):
        def _hit(self, where=None):
            n = counter["n"]
            counter["n"] += 1
            for f in ext_faults:
                if f["nth"] == n:
                    ctx.fault("ext-" + f["how"])
                    if f["how"] == "exception":
                        raise RuntimeError("extension failure (injected)")
                    if f["how"] == "kbi":
                        raise KeyboardInterrupt
                    if f["how"] == "systemexit":
                        raise SystemExit(4)
                    if f["how"] == "write_file" and where is not None and str(where).startswith(tmp_prefix):
                        # only ever write into Griffe's temporary checkout, never into the user's working tree
                        d = os.path.join(os.path.dirname(str(where)), "__pycache__")
                        os.makedirs(d, exist_ok=True)
                        with open(os.path.join(d, "written-by-extension.pyc"), "wb") as fh:
                            fh.write(b"\0")
                    if f["how"] == "chdir":
                        # code run during loading changes the working directory and does not come back (an inspected
                        # module's import-time `os.chdir`, a sloppy extension): a relative `repo` now names nothing
                        os.chdir(os.path.dirname(tmp_prefix.rstrip(os.sep)))
                    if f["how"] == "remove_checkout" and where is not None and str(where).startswith(tmp_prefix):
                        # code run during loading (a clean-up script, a build step gone wrong) deletes the temporary
                        # checkout altogether - only ever Griffe's checkout
                        top = str(where)[len(tmp_prefix):].split(os.sep)
                        if len(top) > 2 and top[0].startswith("griffe-worktree-"):
                            shutil.rmtree(os.path.join(tmp_prefix, top[0], top[1]), ignore_errors=True)
                            ctx.fault("checkout-removed")
                    if f["how"] == "detach_checkout" and where is not None and str(where).startswith(tmp_prefix):
                        # code run during loading (a build step, `git init`, a clean-up script) removes the link file
                        # that ties the temporary checkout to the repository - only ever inside Griffe's checkout
                        top = str(where)[len(tmp_prefix):].split(os.sep)
                        link = os.path.join(tmp_prefix, top[0], top[1], ".git") if len(top) > 2 else None
                        if link and os.path.isfile(link):
                            os.remove(link)
                            ctx.fault("checkout-link-removed")

        def on_node(self, *, node, agent, **kwargs):
            self._hit(getattr(agent, "filepath", None))

        def on_instance(self, *, node, obj, agent, **kwargs):
            self._hit(getattr(agent, "filepath", None))

        def on_members(self, *, node, obj, agent, **kwargs):
            self._hit(getattr(agent, "filepath", None))

        def on_package_loaded(self, *, pkg, loader, **kwargs):
            fp = pkg._filepath
            self._hit(fp if isinstance(fp, Path) else None)

    return FaultExtension()


# ------------------------------------------------------------------------------------------------
# Execution


def _names_iter(seed_text):
    i = 0
    while True:
        yield hashlib.blake2b(f"{seed_text}/{i}".encode(), digest_size=4).hexdigest()
        i += 1


def _source_check(ctx, world, top, ref_commit, w_norm, tags, resolved_expected=False):
    """After a successful load: every object of the returned tree is usable after the checkout is gone."""
    files = world["commits"][ref_commit]["files"] if ref_commit is not None else None
    seen = set()

    def rec(obj):
        if id(obj) in seen:
            return True
        seen.add(id(obj))
        for m in obj.members.values():
            if m.is_alias:
                # after resolve_aliases, an alias into a package of the same checkout must be resolved and usable
                top = m.target_path.split(".", 1)[0]
                if resolved_expected and files is not None and (top == "pkg" or (top == "_pkg" and any(k.startswith("../_pkg/") for k in files))):
                    try:
                        ft = m.final_target
                        ft.lines  # noqa: B018
                        m.as_json(full=True)
                    except Exception as e:  # noqa: BLE001
                        ctx.fail("U-alias-unusable", f"{m.path} -> {m.target_path}: not usable after load_git(resolve_aliases=True): {type(e).__name__}: {str(e)[:120]}", exc=e, tags=tags)
                        return False
                    if not rec(ft):
                        return False
                continue
            try:
                lines = m.lines
                src = m.source
                m.docstring  # noqa: B018
                fp = m.filepath
                m.as_json(full=True)
            except Exception as e:  # noqa: BLE001
                ctx.fail("U-unusable", f"{m.path}: attribute access after load_git raised {type(e).__name__}: {str(e)[:160]}", exc=e, tags=tags)
                return False
            key = None
            if isinstance(fp, Path):
                key = fp.name if fp.parent.name == "pkg" else f"../{fp.parent.name}/{fp.name}"
            if files is not None and key in files and files[key].startswith("<LINK:"):
                key = files[key][6:-1]  # a symbolic link: the lines are those of the file it names
            if files is not None and not m.is_module and key in files and m.lineno and m.endlineno:
                expected = _expand(files[key]).splitlines()[m.lineno - 1 : m.endlineno]
                if lines != expected:
                    ctx.fail("U-source", f"{m.path}: source lines differ from the file at that commit: {lines[:2]} != {expected[:2]}", tags=tags)
                    return False
                if not src:
                    ctx.fail("U-source", f"{m.path}: empty source after the checkout was removed", tags=tags)
                    return False
            if not rec(m):
                return False
        return True

    return rec(top)


def _f_params(files):
    import re

    for key in ("a.py", "../_pkg/a.py"):
        if key in files:
            m = re.search(r"def f\(([^)]*)\)", files[key])
            return m.group(1) if m else None
    return None


def _expected_break(world, op):
    """True: f's parameter list differs between the two committed versions (must be reported); False: the very same
    commit on both sides (nothing to report); None: not predicted (dirty working tree, broken commits, unknown refs)."""
    if op.get("against") is None:
        return None
    old = _ref_commit(world, op["against"])
    if op.get("base_ref") is None:
        st = world["state"]
        if st["dirty"] or st["detached"] or st.get("work_in_linked_worktree"):
            return None
        new = len(world["commits"]) - 1
    else:
        new = _ref_commit(world, op["base_ref"])
    if old is None or new is None:
        return None
    co, cn = world["commits"][old], world["commits"][new]
    if co["kind"] not in ("normal", "inspectable") or cn["kind"] not in ("normal", "inspectable"):
        return None
    if old == new:
        return False
    po, pn = _f_params(co["files"]), _f_params(cn["files"])
    if po is None or pn is None:
        return None
    return True if po != pn else None


def _ref_commit(world, ref):
    commits = world["commits"]
    last = len(commits) - 1
    head = last - 1 if world["state"]["detached"] else last
    st = world["state"]
    if st.get("work_in_linked_worktree") and st["user_worktree"] == "live":
        # HEAD is the one of the linked worktree the user works in: the first branch
        branches = [(i, b) for i, c in enumerate(commits) for b in c["branches"]]
        if branches:
            head = branches[0][0]
    if ref in ("main", "origin/main"):
        return last
    if ref in ("HEAD", "@"):
        return head
    if ref in ("HEAD~1", "@^", "HEAD^"):
        return head - 1 if head >= 1 else None
    for i, c in enumerate(commits):
        if ref in c["tags"] or ref in c["branches"]:
            return i
    return None


_run_counter = 0


def execute(plan, ctx):
    import _griffe.git as ggit
    import griffe

    world = plan["world"]
    global _run_counter
    _run_counter += 1
    root = os.path.join(SHM, f"simgriffe-{os.getpid()}", f"c20-{_run_counter}")
    if os.path.exists(root):
        shutil.rmtree(root)
    os.makedirs(root)
    tmpdir = os.path.join(root, "tmp")
    os.makedirs(tmpdir)
    tmp_for_griffe = tmpdir
    if world["state"].get("tmp_symlinked"):
        tmp_for_griffe = os.path.join(root, "tmp-link")
        os.symlink(tmpdir, tmp_for_griffe)
    old_env = {k: os.environ.get(k) for k in (*GIT_ENV, "LANGUAGE")}
    old_cwd = os.getcwd()
    old_tempdir = tempfile.tempdir
    old_names = tempfile._get_candidate_names
    old_dwb = sys.dont_write_bytecode
    trace = []
    try:
        os.environ.update(GIT_ENV)
        repo = build_repo(root, world)
        main_repo = repo
        linked = os.path.join(root, "wts", world["state"].get("user_worktree_dirname", "user-wt"))
        if world["state"].get("work_in_linked_worktree") and world["state"]["user_worktree"] == "live" and os.path.isdir(linked):
            repo = linked
        os.chdir(repo)
        if world["state"].get("tmp_in_repo"):
            tmpdir = tmp_for_griffe = os.path.join(repo, ".griffe-tmp")
            os.makedirs(tmpdir)
            ctx.fault("tmpdir-below-working-directory")
        if world["state"].get("locale"):
            # (the harness's own git commands keep LC_ALL=C, see _env)
            os.environ["LC_ALL"] = "C.UTF-8"
            os.environ["LANGUAGE"] = world["state"]["locale"]
            ctx.fault("git-messages-translated")
        tempfile.tempdir = tmp_for_griffe
        names = _names_iter(str(plan.get("seed", 0)))
        tempfile._get_candidate_names = lambda: names
        prev_op = None
        for oi, op in enumerate(plan["ops"]):
            if op["op"] == "retry":
                if prev_op is None:
                    continue
                op = {**prev_op, "faults": []}
            prev_op = op
            ctx.steps += 1
            before = (snapshot(repo, root, tmpdir), snapshot(main_repo, root, tmpdir) if main_repo != repo else None)
            faults = op["faults"]
            shim = SubprocessShim(faults, ctx)
            counter = {"n": 0}
            ext = make_fault_extension(griffe, faults, ctx, counter, os.path.realpath(tmpdir) + os.sep)
            exts = griffe.load_extensions(ext)
            search_paths = ["src"] if world["layout"] == "src" else None
            outcome = "ok"
            result = None
            err = io.StringIO()
            stderr, stdout = sys.stderr, sys.stdout
            ggit.subprocess = shim
            sys.stderr, sys.stdout = err, io.StringIO()
            hook_env = world["state"].get("hook_env")
            outer = None
            if hook_env == "other-repo":
                hook_env = None
                if op["op"] == "load_git" and op.get("repo_arg") in ("abs", "pathobj", None):
                    outer = os.path.join(root, "outer-project")
                    if not os.path.isdir(outer):
                        os.makedirs(outer)
                        _git(outer, "init", "-q", "-b", "main")
                        with open(os.path.join(outer, "README"), "w") as fh:
                            fh.write("superproject\n")
                        _git(outer, "add", "-A", env=_env(0))
                        _git(outer, "commit", "-q", "-m", "outer", env=_env(0))
                        for b in ("griffe-v1", "griffe-v2", "griffe-1-0-0", "griffe-release-1-0", "griffe-HEAD", "griffe-main", "griffe-dev", "griffe-feature-x", "griffe-HEAD-1"):
                            _git(outer, "branch", b)
                    outer_before = snapshot(outer, root, tmpdir)
                    ogit = os.path.join(outer, ".git")
                    os.environ["GIT_DIR"] = ogit
                    os.environ["GIT_INDEX_FILE"] = os.path.join(ogit, "index")
                    os.environ["GIT_WORK_TREE"] = outer
                    ctx.fault("hook-environment-other-repo")
            if hook_env:
                gitdir = _git(repo, "rev-parse", "--absolute-git-dir").strip()
                os.environ["GIT_INDEX_FILE"] = os.path.join(gitdir, "index")
                if hook_env == "index+dir":
                    os.environ["GIT_DIR"] = gitdir
                ctx.fault("hook-environment-" + hook_env)
            if any(f["kind"] == "bytecode" for f in faults):
                sys.dont_write_bytecode = False  # CPython's default; this sandbox exports PYTHONDONTWRITEBYTECODE=1
                ctx.fault("bytecode-caching-enabled")
            listing = ListingSeam(tmpdir, op.get("listing") or {"mode": "sorted"}, None) if op.get("listing") else None

            def _operation():
                import contextlib

                with CheckoutReadSeam(tmpdir, faults, ctx), (listing.installed() if listing else contextlib.nullcontext()):
                    if op["op"] == "load_git":
                        spec = "pkg" if op["form"] == "name" else Path("src/pkg" if world["layout"] == "src" else "pkg")
                        repo_arg = {"abs": repo, "dot": ".", "relative": os.path.join("..", os.path.basename(repo)), "pathobj": Path(repo),
                                    # the caller sits in the directory above the repository and names it relatively
                                    "child": os.path.basename(repo), "dotchild": os.path.join(".", os.path.basename(repo))}[op.get("repo_arg", "abs")]
                        if op.get("repo_arg") in ("child", "dotchild"):
                            os.chdir(os.path.dirname(repo))
                        return griffe.load_git(
                            spec,
                            ref=op["ref"],
                            repo=repo_arg,
                            extensions=exts,
                            search_paths=search_paths if op["form"] == "name" else None,
                            resolve_aliases=op["resolve_aliases"],
                            allow_inspection=op["force_inspection"],
                            force_inspection=op["force_inspection"],
                        )
                    elif op["api"] == "check":
                        from _griffe.cli import check

                        return check("pkg", op["against"], base_ref=op["base_ref"], extensions=[ext], search_paths=search_paths, allow_inspection=False, style=op["style"], color=False)
                    else:
                        from _griffe.cli import main

                        argv = ["check", "pkg", "-X"]
                        if op["against"]:
                            argv += ["-a", op["against"]]
                        if op["base_ref"]:
                            argv += ["-b", op["base_ref"]]
                        if search_paths:
                            argv += ["-s", "src"]
                        if op["style"]:
                            argv += ["-f", op["style"]]
                        return main(argv)

            try:
                if op.get("thread"):
                    # the embedding application calls Griffe from a worker thread (one thread at a time: no race)
                    import threading

                    box = {}

                    def _target():
                        try:
                            box["result"] = _operation()
                        except BaseException as e:  # noqa: BLE001
                            box["error"] = e

                    th = threading.Thread(target=_target, name="sim-worker")
                    th.start()
                    th.join()
                    ctx.fault("called-from-worker-thread")
                    if "error" in box:
                        raise box["error"]
                    result = box.get("result")
                else:
                    result = _operation()
            except BaseException as e:  # noqa: BLE001 - interruptions are part of the fault model
                outcome = type(e).__name__
            finally:
                os.chdir(repo)
                for k in HOOK_VARS:
                    os.environ.pop(k, None)
                ggit.subprocess = real_subprocess
                try:
                    import colorama

                    colorama.deinit()  # check() wraps the streams it found (ours); undo before restoring the real ones
                    ci = colorama.initialise
                    ci.orig_stdout = ci.orig_stderr = ci.wrapped_stdout = ci.wrapped_stderr = None
                except Exception:  # noqa: BLE001
                    pass
                sys.stderr, sys.stdout = stderr, stdout
                sys.dont_write_bytecode = old_dwb
                for name in [n for n in sys.modules if n in ("pkg", "_pkg") or n.startswith(("pkg.", "_pkg."))]:
                    del sys.modules[name]
                import importlib

                importlib.invalidate_caches()
                for key in [k for k in sys.path_importer_cache if k.startswith(root)]:
                    del sys.path_importer_cache[key]
            after = (snapshot_after(repo, root, tmpdir), snapshot_after(main_repo, root, tmpdir) if main_repo != repo else None)
            if outer is not None:
                d = snap_diff(outer_before, snapshot(outer, root, tmpdir))
                if d is not None:
                    ctx.fail("G-other-repo-" + d[0], f"after {op['op']}({op.get('ref')}) with the Git variables of another repository in the environment, that repository changed: {d[0]}: {_short(d[1])} -> {_short(d[2])}", tags=_tags(world, op, faults, shim, ctx))
                    break
            ctx.log("op", (oi, op["op"], op.get("ref", op.get("against")), outcome, tuple(shim.sites), counter["n"]))
            trace.append((op["op"], outcome, tuple(sorted(f["kind"] + ":" + str(f.get("how", f.get("at", ""))) for f in faults))))
            tags = _tags(world, op, faults, shim, ctx)
            d = snap_diff(before[0], after[0]) or (snap_diff(before[1], after[1]) if before[1] is not None else None)
            if d is not None:
                key, a, b = d
                ctx.fail("G-" + key, f"after {op['op']}({op.get('ref', op.get('against'))}) ending with {outcome}: {key} changed: {_short(a)} -> {_short(b)}", tags=tags)
                break
            if outcome == "ok":
                if op["op"] == "load_git":
                    # a file whose read was tampered with cannot be compared with the commit's content
                    ref_commit = None if any(k.startswith("read-") for k in ctx.faults) else _ref_commit(world, op["ref"])
                    if not _source_check(ctx, world, result, ref_commit, None, tags, resolved_expected=bool(op["resolve_aliases"]) and not faults and ref_commit is not None and world["commits"][ref_commit]["kind"] in ("normal", "inspectable")):
                        break
                else:
                    text = err.getvalue()
                    lines = [ln for ln in text.splitlines() if ln.strip() and not ln.startswith("griffe: error")]
                    if tmpdir in text or "griffe-worktree-" in text:
                        ctx.fail("U-breakage-path", f"check output shows the temporary checkout path: {text[:200]}", tags=tags)
                        break
                    if op.get("style") in (None, "oneline") and not faults:
                        # `<file>:<line>: <object>: <what>`: the file is named as it is in the repository
                        import re as _re

                        prefix = "src/" if world["layout"] == "src" else ""
                        bad = [ln for ln in lines if (m := _re.match(r"^([^\s:]+\.py):\d+: ", ln)) and not m.group(1).startswith((prefix + "pkg/", prefix + "_pkg/"))]
                        if bad:
                            ctx.fail("U-breakage-location", f"check names a file that is not a path of the repository: {bad[0][:160]}", tags=tags)
                            break
                    if result not in (0, 1, 2):
                        ctx.fail("U-exit-code", f"check returned {result!r}", tags=tags)
                        break
                    if (result == 1) != bool(lines) and result != 2:
                        ctx.fail("U-exit-code", f"check returned {result} but printed {len(lines)} breakage lines", tags=tags)
                        break
                    exp = _expected_break(world, op)
                    if exp is not None and not faults and result != 2:
                        if exp and result != 1:
                            ctx.fail("U-missed-breakage", f"check({op.get('against')}, base_ref={op.get('base_ref')}) returned {result}: the parameters of the public function f differ between the two versions but nothing was reported", tags=tags)
                            break
                        if not exp and result != 0 and exp is False:
                            ctx.fail("U-spurious-breakage", f"check of a version against itself returned {result}: {text[:200]}", tags=tags)
                            break
            else:
                ctx.probe("op-failed-" + outcome)
                if op["op"] == "check" and not faults and outcome in ("ValueError", "TypeError", "AttributeError", "KeyError", "IndexError"):
                    ctx.fail("U-check-crashed", f"check({op.get('against')}, base_ref={op.get('base_ref')}) without any injected fault ended with {outcome}", tags=tags)
                    break
        else:
            pass
    finally:
        os.chdir(old_cwd)
        tempfile.tempdir = old_tempdir
        tempfile._get_candidate_names = old_names
        sys.dont_write_bytecode = old_dwb
        for k, v in old_env.items():
            if v is None:
                os.environ.pop(k, None)
            else:
                os.environ[k] = v
        shutil.rmtree(root, ignore_errors=True)
    ctx.nontrivial = True
    ctx.cover.append((tuple(trace), world["layout"], tuple(sorted(world["state"]["dirty"])), world["state"]["user_worktree"], world["state"]["detached"]))


def _short(x):
    s = repr(x)
    return s if len(s) < 300 else s[:300] + "..."


def _tags(world, op, faults, shim, ctx):
    tags = set()
    if world["state"]["user_worktree"] == "stale":
        tags.add("user-has-stale-worktree")
    for f in faults:
        if f["kind"] == "ext" and f["how"] in ("write_file", "detach_checkout") and ctx.faults.get("ext-" + f["how"]):
            tags.add("files-written-into-checkout")
        if f["kind"] == "bytecode":
            tags.add("files-written-into-checkout")
        if f["kind"] == "git" and f["at"] == "add" and f["how"] == "kbi_after" and ctx.faults.get("git-add-kbi_after"):
            tags.add("interrupt-right-after-worktree-add")
    return sorted(tags)


# ------------------------------------------------------------------------------------------------
# Shrinking


def shrink_candidates(plan):
    ops = plan["ops"]
    for red in core.list_reductions(ops):
        if red:
            yield {**plan, "ops": red}
    for i, op in enumerate(ops):
        if op.get("faults"):
            for red in core.list_reductions(op["faults"]):
                yield {**plan, "ops": ops[:i] + [{**op, "faults": red}] + ops[i + 1 :]}
        if op["op"] == "check" and op.get("base_ref"):
            yield {**plan, "ops": ops[:i] + [{**op, "base_ref": None}] + ops[i + 1 :]}
        if op["op"] == "check" and op.get("api") == "main":
            yield {**plan, "ops": ops[:i] + [{**op, "api": "check"}] + ops[i + 1 :]}
    world = plan["world"]
    st = world["state"]
    for key, simple in (("collide_branch", False), ("detached", False), ("user_worktree", None), ("repo_dirname", "repo"), ("user_worktree_dirname", "user-wt"), ("work_in_linked_worktree", False), ("tmp_symlinked", False), ("post_checkout_hook", None), ("remote_tracking", False), ("auto_setup_merge", None), ("hook_env", None), ("submodule", False), ("locale", None), ("tmp_in_repo", False), ("collide_tag", False)):
        if st.get(key, simple) != simple:
            yield {**plan, "world": {**world, "state": {**st, key: simple}}}
    for red in core.list_reductions(st["dirty"]):
        yield {**plan, "world": {**world, "state": {**st, "dirty": red}}}
    if world["layout"] == "src":
        yield {**plan, "world": {**world, "layout": "root"}}
    commits = world["commits"]
    if len(commits) > 2:
        for i in range(len(commits) - 1):
            merged = commits[:i] + commits[i + 1 :]
            merged[min(i, len(merged) - 1)] = {**merged[min(i, len(merged) - 1)], "tags": merged[min(i, len(merged) - 1)]["tags"] + commits[i]["tags"], "branches": merged[min(i, len(merged) - 1)]["branches"] + commits[i]["branches"]}
            yield {**plan, "world": {**world, "commits": merged}}


def sample_view(plan):
    w = plan["world"]
    return {
        "seed": plan["seed"],
        "layout": w["layout"],
        "commits": [{"kind": c["kind"], "tags": c["tags"], "branches": c["branches"], "files": sorted(c["files"])} for c in w["commits"]],
        "state": w["state"],
        "ops": plan["ops"],
    }


class _Prop:
    ID = "C20"
    TIERS = {
        "quick": {"runs": 2_500, "wall": 85, "det_n": 60, "shrink_s": 50, "fresh_n": 30},
        "thorough": {"runs": 120_000, "wall": 1150, "det_n": 400, "shrink_s": 150},
    }
    OPTS = {"chunk": 25, "chunk_wall": 400, "fresh_n": 30}
    REPLAY_IN_PARENT = False
    RULE = (
        "one run = one real Git repository built on tmpfs (2-5 commits of a small package in root or src/ layout, "
        "incl. syntax-error / package-less / undecodable commits; 1-3 tags incl. one with a slash, 0-2 branches incl. "
        "one with a slash, optional colliding griffe-v1 branch, detached HEAD, dirty tree with modified / staged / "
        "untracked / ignored files, live or stale user worktree) and one history of 1-3 operations (load_git by name "
        "or path, check(), main(['check',...]), retry) each with 0-2 injected faults: git subprocess step x {spawn "
        "OSError, non-zero exit, KeyboardInterrupt before spawn / after child exit}, read faults inside the checkout, "
        "extension raising Exception / KeyboardInterrupt / SystemExit at its n-th hook call or writing files into "
        "the checkout, bytecode caching by inspected imports. Full repository snapshot equality and empty temp dir "
        "after every operation; usability of returned objects after success. Non-trivial = every run; distinct = "
        "distinct (operation/outcome/fault trace, layout, dirty state, worktree state). Also drawn: Git shorthand refs (@, @^), $TMPDIR behind a symlink, a post-checkout hook (succeeding or failing), user-chosen directory names for the repository and the linked worktree (incl. names that look like normalised refs), operating from a linked worktree, a user branch colliding with the temporary name of any ref, repository argument as absolute / . / relative / Path, a public package that re-exports from a private sibling package of the same checkout; after success aliases into the checkout must be usable and a changed parameter list of the public function must be reported by check. Round t/u: Latin-1 directory names, locations printed by check must be paths of the repository, tracked symbolic links to modules, a directory-listing seam over the temporary checkout. Round s: a user tag named like the temporary branch, the checkout deleted while in use. Round r: one interruption or transient spawn failure inside the clean-up commands, an extension changing the working directory, $TMPDIR inside the repository, translated git messages, a user branch named `griffe-`. Round j/k: remote-tracking refs and branch.autoSetupMerge; the git child killed half-way through `worktree add` (branch created, worktree registered and still locked 'initializing', index locked, directory partly populated)."
    )
    COMPONENTS = {
        "real": ["_griffe.git (tmp_worktree, assert_git_repo, get_latest_tag, get_repo_root)", "_griffe.loader.load_git", "_griffe.cli.check / main", "_griffe.diff", "git 2.39 binary", "real repository and checkout on tmpfs"],
        "stubbed": [],
        "seams": ["_griffe.git.subprocess (fault-capable shim around the real module)", "pathlib.Path.read_text inside the checkout", "FaultExtension through extensions=", "tempfile.tempdir + seeded tempfile names", "sys.dont_write_bytecode"],
    }
    ASSUMPTIONS = [
        "interruption = KeyboardInterrupt at a Python-visible point; SIGKILL/power loss of the *Python* process necessarily leaves the checkout behind and is out of scope",
        "a git child killed half-way through `worktree add` is emulated (real `worktree add --no-checkout` + `worktree lock --reason initializing` + index.lock + a partial file, exit status -9); the emulated state was compared with the one a real SIGKILL during a blocking smudge filter leaves (git 2.39)",
        "cleanup commands (worktree remove/prune, branch -D) are hit by at most one interruption / transient spawn failure per operation; they are never made to fail persistently (no implementation could clean up without them)",
        "sampling, not enumeration",
    ]

    generate = staticmethod(generate)
    execute = staticmethod(execute)
    shrink_candidates = staticmethod(shrink_candidates)
    sample_view = staticmethod(sample_view)


PROP = _Prop()
