from __future__ import annotations

import importlib

PROPS = ["C06", "C14", "C15", "C16", "C19", "C20"]


def get_prop(prop_id: str):
    if prop_id not in PROPS:
        raise SystemExit(f"unknown property {prop_id}; claimed: {PROPS}")
    return importlib.import_module(f"simgriffe.props.{prop_id.lower()}").PROP
