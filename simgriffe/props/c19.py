"""C19 - Merging stubs loses nothing, prefers stub types, and does not depend on which file is met first.

World: a generated (runtime module tree, stubs tree) pair with random overlap, kind mismatches, nested classes,
imports on either side and @overload groups, rendered in one of three placements (sibling .pyi inside the
package, separate <pkg>-stubs package, single module + .pyi).  Schedule: the order in which os.walk/iterdir report
directory entries (ListingSeam).  Oracle: a reference merge model written from the property statement, an
alias-resolution monitor, and equality of the normalised tree across all listing schedules of one world.
"""

from __future__ import annotations

import copy
import sys
from contextlib import contextmanager
from pathlib import Path

from simgriffe import core, pysrc
from simgriffe.seams import ListingSeam, World, _real_read_text

MOD_NAMES = ["f", "g", "C", "D", "x", "y", "imp"]
CLS_NAMES = ["m", "n", "K", "v"]
DEFAULT_KIND = {"f": "func", "g": "func", "C": "class", "D": "class", "x": "attr", "y": "attr", "imp": "import", "m": "func", "n": "func", "K": "class", "v": "attr"}
IMPL_MEMBERS = [
    {"k": "func", "name": "f", "params": [["a", "int", False]], "ret": "int", "doc": "impl f"},
    {"k": "func", "name": "g", "params": [["a", None, False], ["b", None, True]], "ret": None, "doc": None},
    {"k": "class", "name": "C", "doc": "impl C", "members": [{"k": "func", "name": "m", "params": [["self", None, False]], "ret": None, "doc": None}]},
    {"k": "attr", "name": "x", "ann": "int", "value": "1", "doc": None},
]
ANY = {"__any__": 1}


def either(a, b):
    return a if a == b else {"__either__": [a, b]}


# ------------------------------------------------------------------------------------------------
# Generation


def _gen_params(rng, method, like=None):
    # (names as they occur in the wild: private-looking, dunder-prefixed (the pre-PEP 570 positional-only convention),
    # trailing underscore, non-ASCII)
    names = rng.choice([["a", "b", "c"], ["a", "b", "c"], ["a", "b", "c"], ["__a", "_b", "c_"], ["__x", "x", "é"]])
    if like is not None and rng.random() < 0.8:
        base = [p[0] for p in like if p[0] != "self"]
        if rng.random() < 0.3 and base:
            base = base[:-1]
        if rng.random() < 0.3:
            base = base + [n for n in names if n not in base][:1]
    else:
        base = names[: rng.choice([0, 1, 2, 2, 3])]
    if like is not None and len(base) > 1 and rng.random() < 0.2:
        rng.shuffle(base)  # stubs may list (keyword) parameters in another order: annotations go by name
    n_def = rng.randrange(len(base) + 1)
    params = [["self", None, False]] if method else []
    for i, n in enumerate(base):
        ann = rng.choice(pysrc.ANNS) if rng.random() < 0.6 else None
        params.append([n, ann, i >= len(base) - n_def])
    if rng.random() < 0.15:
        # typeshed-style signatures: positional-only (`/`), keyword-only (`*`), *args / **kwargs - drawn independently
        # for the runtime and the stub side, so the same name may have different kinds on the two sides
        used = set()
        for prm in params:
            if prm[0] == "self":
                continue
            k = rng.choice([None, None, "po", "kw", "var", "varkw"])
            if k in ("var", "varkw"):
                if k in used:
                    k = None
                used.add(k)
            if k:
                prm.append(k)
    return params


def _gen_doc(rng, tag):
    r = rng.random()
    if r < 0.4:
        return None
    if r < 0.5:
        return ""
    return f"{tag} doc"


def _gen_member(rng, name, kind, side, level, cfg, like=None):
    tag = f"{side} {name}"
    if kind == "func":
        deco = rng.choice([None, None, None, "staticmethod", "classmethod", "property"]) if level > 0 else None
        if deco == "property":
            # a property is an attribute for Griffe (stubs declaring `name: T` are of the same kind); either side may
            # also declare a setter and/or deleter for it
            m = {"k": "func", "name": name, "params": [["self", None, False]], "ret": rng.choice(pysrc.ANNS) if rng.random() < 0.6 else None, "doc": _gen_doc(rng, tag), "deco": "property"}
            acc = rng.choice([[], [], ["setter"], ["setter", "deleter"], ["deleter"]])
            if acc:
                m["accessors"] = acc
            return m
        m = {"k": "func", "name": name, "params": _gen_params(rng, level > 0 and deco != "staticmethod", like["params"] if like and like["k"] == "func" else None), "ret": rng.choice(pysrc.ANNS) if rng.random() < 0.6 else None, "doc": _gen_doc(rng, tag)}
        if deco:
            m["deco"] = deco
        if side == "rt" and not deco and rng.random() < cfg.get("p_rt_overloads", 0.0):
            # the runtime module declares @overload signatures of its own (typed code bases do): the stubs' list replaces them
            m["rt_overloads"] = [{"params": _gen_params(rng, level > 0, m["params"]), "ret": rng.choice(pysrc.ANNS)} for _ in range(rng.choice([1, 2]))]
        return m
    if kind == "attr":
        ann = rng.choice(pysrc.ANNS[:-1]) if rng.random() < (0.85 if side == "st" else 0.5) else None
        value = "1" if side == "rt" or ann is None or rng.random() < 0.3 else None
        return {"k": "attr", "name": name, "ann": ann, "value": value, "doc": _gen_doc(rng, tag) if rng.random() < 0.5 else None}
    if kind == "class":
        bases = rng.choice([[], [], ["object"], ["Exception"], ["dict", "object"]])
        return {"k": "class", "name": name, "doc": _gen_doc(rng, tag), "members": [], "bases": bases}  # members filled by caller
    if kind == "import":
        src = rng.choice(cfg["import_sources"])
        orig = rng.choice(["f", "g", "C", "x"]) if rng.random() < 0.7 else name
        return {"k": "import", "name": name, "from": src, "orig": orig}
    if kind == "overloads":
        sigs = [{"params": _gen_params(rng, level > 0, like["params"] if like and like["k"] == "func" else None), "ret": rng.choice(pysrc.ANNS)} for _ in range(rng.choice([1, 2, 2, 3]))]
        impl = None
        if rng.random() < cfg["p_overload_impl"]:
            impl = {"params": _gen_params(rng, level > 0, like["params"] if like and like["k"] == "func" else None), "ret": rng.choice(pysrc.ANNS) if rng.random() < 0.5 else None, "doc": None}
        return {"k": "overloads", "name": name, "sigs": sigs, "impl": impl}
    raise AssertionError(kind)


def _gen_pair(rng, level, cfg):
    names = MOD_NAMES if level == 0 else CLS_NAMES
    rt, st = [], []
    for name in names:
        r = rng.random()
        presence = "both" if r < 0.45 else "rt" if r < 0.65 else "st" if r < 0.85 else "none"
        if presence == "none":
            continue
        kinds = ["func", "class", "attr", "import"]
        k_rt = DEFAULT_KIND[name] if rng.random() > cfg["p_mismatch"] else rng.choice(kinds)
        if k_rt == "import" and rng.random() > cfg["p_import"]:
            k_rt = "func"
        k_st = k_rt if rng.random() > cfg["p_mismatch"] else rng.choice(kinds)
        if k_st == "import" and k_rt != "import" and rng.random() > cfg["p_import"]:
            k_st = "func"
        if k_st == "func" and rng.random() < cfg["p_overloads"]:
            k_st = "overloads"
        if level >= 2 and k_rt == "class":
            k_rt = "attr"
        if level >= 2 and k_st == "class":
            k_st = "attr"
        m_rt = m_st = None
        if presence in ("both", "rt"):
            m_rt = _gen_member(rng, name, k_rt, "rt", level, cfg)
            if level == 0 and m_rt["k"] in ("func", "class", "attr") and rng.random() < cfg.get("p_guard", 0.0):  # not nested: the visitor resets its guard flag after an inner `if TYPE_CHECKING:` (a C01 matter)
                m_rt["guard"] = True  # the runtime file defines it under `if TYPE_CHECKING:`
            rt.append(m_rt)
        if presence in ("both", "st"):
            m_st = _gen_member(rng, name, k_st, "st", level, cfg, like=m_rt)
            st.append(m_st)
        if m_rt and m_st and m_rt["k"] == "class" and m_st["k"] == "class":
            m_rt["members"], m_st["members"] = _gen_pair(rng, level + 1, cfg)
        else:
            if m_rt and m_rt["k"] == "class":
                m_rt["members"], _ = _gen_pair(rng, level + 1, cfg)
            if m_st and m_st["k"] == "class":
                _, m_st["members"] = _gen_pair(rng, level + 1, cfg)
    # inheritance between the generated classes of one scope (D(C), K nested...): the stubs may re-declare, in the
    # derived class, a member that the runtime class merely inherits
    rt_classes = [m for m in rt if m["k"] == "class"]
    if len(rt_classes) >= 2 and rng.random() < 0.5:
        base, derived = rt_classes[0], rt_classes[1]
        derived["bases"] = [base["name"]]
        st_derived = next((m for m in st if m["k"] == "class" and m["name"] == derived["name"]), None)
        inheritable = [m for m in base["members"] if m["k"] in ("func", "attr") and m["name"] not in {x["name"] for x in derived["members"]}]
        if st_derived is not None and inheritable and rng.random() < 0.7:
            src = rng.choice(inheritable)
            if src["name"] not in {x["name"] for x in st_derived["members"]}:
                st_derived["members"].append(_gen_member(rng, src["name"], src["k"], "st", level + 1, cfg, like=src))
    rng.shuffle(rt)
    rng.shuffle(st)
    # a base class must be defined before the classes deriving from it
    rt.sort(key=lambda m: 0 if any(m["name"] in (o.get("bases") or []) for o in rt if o is not m) else 1)
    return rt, st


def generate(rng, opts):
    placement = rng.choice(["sibling", "sibling", "stubs_pkg", "single"])
    # the implementation module the public modules re-export from: a private sub-module, or a private *sibling package*
    # (`pkg` re-exporting from `_pkg`, the layout Griffe itself uses); the latter is a package of its own in the collection
    impl = "pkg._impl" if rng.random() < 0.75 else "_pkg"
    cfg = {
        "p_mismatch": rng.choice([0.0, 0.1, 0.25]),
        "p_import": rng.choice([0.0, 0.5, 1.0]),
        "p_overloads": rng.choice([0.0, 0.2, 0.5]),
        "p_overload_impl": rng.choice([0.0, 0.0, 0.3]),
        "import_sources": rng.choice([[impl], [impl, "pkg._missing"], [impl, "pkg._missing", "ext"], ["ext"]]),
        "p_star": rng.choice([0.0, 0.0, 0.4]),
        "p_guard": rng.choice([0.0, 0.0, 0.2]),
        # a wildcard import that only the stubs have (lazy `__getattr__` packages whose __init__.pyi re-exports with a star)
        "p_star_st": rng.choice([0.0, 0.0, 0.35]),
        "p_rt_overloads": rng.choice([0.0, 0.0, 0.3]),
    }
    if opts.get("no_known"):
        cfg["p_overload_impl"] = 0.0
    top = "mod" if placement == "single" else "pkg"
    single_stubs_pkg = False
    if placement == "single":
        cfg["import_sources"] = ["ext"]
        modpaths = ["mod"]
        if rng.random() < 0.35:
            # the six / typing_extensions layout: a single-file module, its stubs in a `mod-stubs` package that
            # also holds modules the runtime side does not have
            single_stubs_pkg = True
            modpaths += rng.sample(["mod.extra", "mod.moves"], rng.choice([1, 2]))
    else:
        modpaths = ["pkg", "pkg.a"]
        if rng.random() < 0.5:
            modpaths += ["pkg.sub"] + (["pkg.sub.b"] if rng.random() < 0.7 else [])
        if rng.random() < 0.3:
            modpaths.append("pkg.c")
        if "pkg.sub" in modpaths and rng.random() < 0.3:
            modpaths.append("pkg.sub.d")  # exists on one side only, one level further down
    modules = {}
    for mp in modpaths:
        rt, st = _gen_pair(rng, 0, cfg)
        r = rng.random()
        has_rt = True
        has_st = r < 0.75
        if mp in ("pkg.c", "pkg.sub.d"):
            has_rt, has_st = (False, True) if rng.random() < 0.6 else (True, False)
        if mp.startswith("mod."):
            has_rt, has_st = False, True
        if mp == "mod" and single_stubs_pkg:
            has_rt, has_st = True, True
        if mp in ("pkg", "mod") and rng.random() < 0.8:
            has_st = True
        if has_rt and placement != "single" and mp != impl and rng.random() < cfg["p_star"]:
            # `from pkg._impl import *` as the first statement: re-exports f, g, C, x unless defined locally
            rt.insert(0, {"k": "star", "name": "*", "from": impl})
        elif has_rt and has_st and placement != "single" and mp != impl and rng.random() < cfg["p_star_st"]:
            # `from pkg._impl import *` in the stubs only, above or below the stubs' own definitions: the names it
            # brings are stub-only members unless the runtime module defines them itself
            st.insert(rng.choice([0, len(st)]), {"k": "star", "name": "*", "from": impl})
        modules[mp] = {
            "rt": {"doc": _gen_doc(rng, "rt " + mp), "members": rt} if has_rt else None,
            "st": {"doc": _gen_doc(rng, "st " + mp), "members": st} if has_st else None,
        }
    if "pkg.a" in modules:
        # a module importing from itself is not a program CPython can run: spell those imports from the private module
        for side in ("rt", "st"):
            if modules["pkg.a"][side]:
                for m in _all_members(modules["pkg.a"][side]["members"]):
                    if m.get("from") == "pkg.a":
                        m["from"] = impl
    if placement != "single" and rng.random() < 0.15:
        # stubs declared at the *public* location of a class the runtime package merely re-exports from a private module
        mp = rng.choice([m for m in modpaths if modules[m]["rt"] is not None] or ["pkg"])
        sides = modules[mp]
        if sides["rt"] is not None:
            if sides["st"] is None:
                sides["st"] = {"doc": None, "members": []}
            sides["rt"]["members"] = [m for m in sides["rt"]["members"] if m["name"] != "C"] + [{"k": "import", "name": "C", "from": impl, "orig": "C"}]
            extra = [_gen_member(rng, n, DEFAULT_KIND[n], "st", 1, cfg) for n in rng.sample(["n", "v"], rng.choice([1, 2]))]
            stub_c = {"k": "class", "name": "C", "doc": None, "bases": [], "members": [{"k": "func", "name": "m", "params": [["self", None, False]], "ret": "int", "doc": None}] + extra}
            sides["st"]["members"] = [m for m in sides["st"]["members"] if m["name"] != "C"] + [stub_c]
    if placement != "single" and "pkg.a" in modules and modules["pkg"]["rt"] is not None and rng.random() < 0.15:
        # the package's __init__ binds a name equal to that of a sub-module (`from pkg.a import f as a`, `def a()`):
        # the sub-module takes the slot when it is loaded, whichever of a.py / a.pyi comes first
        shadow = rng.choice([{"k": "import", "name": "a", "from": "pkg.a", "orig": rng.choice(["f", "g", "C", "x"])}, _gen_member(rng, "a", "func", "rt", 0, cfg), _gen_member(rng, "a", "attr", "rt", 0, cfg)])
        modules["pkg"]["rt"]["members"].append(shadow)
    reexported_module = None
    if placement == "stubs_pkg" and rng.random() < 0.15 and "pkg.c" not in modules:
        # the os.path pattern: the package re-exports a private *module* under a public name
        # (`from pkg import _compat as compat`) and the stubs package describes it at the public location
        # (pkg-stubs/compat.pyi), with members the runtime module has and members it has not
        reexported_module = {"public": "compat", "private": "_compat"}
        rt_members = [_gen_member(rng, "f", "func", "rt", 0, cfg)] + ([_gen_member(rng, "x", "attr", "rt", 0, cfg)] if rng.random() < 0.5 else [])
        st_members = [_gen_member(rng, "f", "func", "st", 0, cfg, like=rt_members[0]), _gen_member(rng, "g", "func", "st", 0, cfg)]
        if rng.random() < 0.6:
            k = _gen_member(rng, "K", "class", "st", 0, cfg)
            k["members"] = [_gen_member(rng, "m", "func", "st", 1, cfg)]
            st_members.append(k)
        modules["pkg._compat"] = {"rt": {"doc": _gen_doc(rng, "rt pkg._compat"), "members": rt_members}, "st": None}
        modules["pkg.compat"] = {"rt": None, "st": {"doc": _gen_doc(rng, "st pkg.compat"), "members": st_members}}
        modules["pkg"]["rt"]["members"] = [m for m in modules["pkg"]["rt"]["members"] if m["name"] != "compat"] + [{"k": "import", "name": "compat", "from": "pkg", "orig": "_compat"}]
    if placement != "single" and any(impl == m.get("from") for mod in modules.values() for side in ("rt", "st") if mod[side] for m in _all_members(mod[side]["members"])):  # incl. star imports
        modules[impl] = {"rt": {"doc": None, "members": copy.deepcopy(IMPL_MEMBERS)}, "st": None}
    compiled = {}
    if placement != "single" and rng.random() < 0.2:
        # runtime modules that exist only in compiled form (extension module, sourceless bytecode) next to their stubs:
        # the main reason packages ship .pyi files.  They are analysed by inspection (see `_source_inspect`).
        for mp in modpaths:
            if mp != "pkg" and not any(o.startswith(mp + ".") for o in modpaths) and modules[mp]["rt"] is not None and rng.random() < 0.7:
                compiled[mp] = rng.choice([".so", ".cpython-312-x86_64-linux-gnu.so", ".pyd", ".pyc"])
    bases = [{"mode": "sorted"}, {"mode": "reversed"}] + [{"mode": "hash", "key": rng.randrange(1 << 30)} for _ in range(2)]
    chosen = rng.sample(bases, rng.choice([1, 1, 2]))
    schedules = [{"base": b, "stub_first": sf} for b in chosen for sf in (False, True)]
    rng.shuffle(schedules)
    # files saved with a UTF-8 byte order mark (either side of a pair)
    bom = sorted(f"{mp}:{side}" for mp in modules for side in ("rt", "st") if modules[mp][side] is not None and rng.random() < 0.3) if rng.random() < 0.1 else []
    return {
        "world": {"bom": bom, "impl": impl, "preload_impl": impl == "_pkg", "placement": placement, "top": top, "modules": modules, "compiled": compiled, "reexported_module": reexported_module, "single_stubs_pkg": single_stubs_pkg, "stubs_other_sp": placement == "stubs_pkg" and rng.random() < 0.5, "stubs_sp_first": rng.random() < 0.5,
                  # looking for a <pkg>-stubs package is an option of the caller, whether or not one exists
                  "find_stubs_package": placement == "stubs_pkg" or single_stubs_pkg or rng.random() < 0.3},
        "schedules": schedules,
        "cfg": cfg,
    }


def _all_members(members):
    for m in members:
        yield m
        if m["k"] == "class":
            yield from _all_members(m["members"])


# ------------------------------------------------------------------------------------------------
# Rendering the world


def render_world(world):
    sp0, sp1 = {}, {}
    placement = world["placement"]
    mods = world["modules"]
    if world.get("single_stubs_pkg"):
        # mod.py next to mod-stubs/__init__.pyi, mod-stubs/extra.pyi ... in the same search path
        for mp, sides in mods.items():
            if sides["rt"] is not None:
                sp0["mod.py"] = pysrc.render_module(sides["rt"]["doc"], sides["rt"]["members"], stub=False)
            if sides["st"] is not None:
                rel = "mod-stubs/__init__.pyi" if mp == "mod" else f"mod-stubs/{mp.split('.', 1)[1]}.pyi"
                sp0[rel] = pysrc.render_module(sides["st"]["doc"], sides["st"]["members"], stub=True)
        return [sp0]
    pkgs = {mp for mp in mods if any(o.startswith(mp + ".") for o in mods)}
    if placement != "single":
        pkgs.add(world["top"])
    for mp, sides in mods.items():
        parts = mp.split(".")
        for side, ext in (("rt", ".py"), ("st", ".pyi")):
            if sides[side] is None:
                continue
            src = pysrc.render_module(sides[side]["doc"], sides[side]["members"], stub=side == "st")
            if f"{mp}:{side}" in world.get("bom", ()):
                src = "\ufeff" + src
            if side == "st" and placement == "stubs_pkg":
                parts2 = [parts[0] + "-stubs"] + parts[1:]
                target = sp1 if world.get("stubs_other_sp") else sp0
            else:
                parts2 = parts
                target = sp0
            if side == "rt" and mp in world.get("compiled", {}) and mp not in pkgs:
                # the file holds the source text: the stand-in inspector analyses it (a real .so cannot be generated)
                ext = world["compiled"][mp]
            rel = "/".join(parts2) + ("/__init__" if mp in pkgs else "") + ext
            target[rel] = src
    # a package whose __init__ is missing on one side still needs the directory to be a package
    for mp in pkgs:
        parts = mp.split(".")
        if mods[mp]["rt"] is None:
            sp0.setdefault("/".join(parts) + "/__init__.py", "")
        if placement == "stubs_pkg" and mods[mp]["st"] is None and any(mods[o]["st"] is not None for o in mods if o.startswith(mp + ".")):
            target = sp1 if world.get("stubs_other_sp") else sp0
            target.setdefault("/".join([parts[0] + "-stubs"] + parts[1:]) + "/__init__.pyi", "")
    return [sp0, sp1] if sp1 else [sp0]


# ------------------------------------------------------------------------------------------------
# Reference merge model (written from the property statement)


def _doc(d):
    return d if d else None


def _merge_doc(rt_doc, st_doc):
    """Runtime docstring unless missing.  A present-but-empty runtime docstring may count as either."""
    if rt_doc:
        return rt_doc
    if rt_doc == "":
        return either(None, _doc(st_doc))
    return _doc(st_doc)


def _sig(params, ret):
    return {"params": [[p[0], p[1]] for p in pysrc.param_order(params)], "returns": ret}


def _as_model(m):
    if m["k"] == "func" and m.get("deco") == "property":
        return {"k": "attr", "name": m["name"], "ann": m["ret"], "value": None, "doc": m["doc"], "guard": m.get("guard")}
    return m


def exp_alone(m, side):
    """Normalised expectation for a member that exists on one side only."""
    m = _as_model(m)
    k = m["k"]
    rt = (not m.get("guard")) if side == "rt" else ANY
    if k == "func":
        own = [_sig(x["params"], x["ret"]) for x in m.get("rt_overloads", [])] or None
        return {"kind": "function", "doc": _doc(m["doc"]), **_sig(m["params"], m["ret"]), "overloads": own, "runtime": rt}
    if k == "attr":
        return {"kind": "attribute", "doc": _doc(m["doc"]), "ann": m["ann"], "runtime": rt}
    if k == "class":
        return {"kind": "class", "doc": _doc(m["doc"]), "members": exp_container(m["members"] if side == "rt" else [], [] if side == "rt" else m["members"], nested_stub_only=side != "rt"), "runtime": rt}
    if k == "import":
        return {"kind": "alias", "target": f"{m['from']}.{m['orig']}", "runtime": rt}
    if k == "overloads":
        if m["impl"] is None:
            return None
        impl = m["impl"]
        return {"kind": "function", "doc": _doc(impl.get("doc")), **_sig(impl["params"], impl["ret"]), "overloads": [_sig(s["params"], s["ret"]) for s in m["sigs"]], "runtime": rt}
    raise AssertionError(k)


def _merge_sig(rt_params, rt_ret, st_params, st_ret):
    st_by_name = {}
    for p in st_params:
        st_by_name.setdefault(p[0], p)
    params = []
    for p in pysrc.param_order(rt_params):
        if p[0] in st_by_name:
            s_ann = st_by_name[p[0]][1]
            # "takes annotations from the stubs": when the stubs give none, either reading is accepted
            params.append([p[0], s_ann if s_ann is not None else either(None, p[1])])
        else:
            params.append([p[0], p[1]])
    ret = st_ret if st_ret is not None else either(None, rt_ret)
    return {"params": params, "returns": ret}


def _mark_guarded(node):
    """Everything defined below an `if TYPE_CHECKING:` definition is type-guarded as well."""
    if isinstance(node, dict) and "kind" in node:
        if node.get("runtime") is True:
            node["runtime"] = False
        for child in (node.get("members") or {}).values():
            _mark_guarded(child)


def exp_container(rt, st, nested_stub_only=False):
    out = {}
    rt = [_as_model(m) for m in rt]
    st = [_as_model(m) for m in st]
    if any(m["k"] == "star" for m in rt):
        local = {m["name"] for m in rt if m["k"] != "star"}
        star = next(m for m in rt if m["k"] == "star")
        rt = [m for m in rt if m["k"] != "star"] + [{"k": "import", "name": n, "from": star["from"], "orig": n} for n in _STAR_NAMES if n not in local]
    if any(m["k"] == "star" for m in st):
        # a wildcard import in the stubs: each public name of the source module that the stubs do not bind themselves
        # is an imported stub name (never merged into a runtime member; stub-only where the runtime has none)
        # (overloads without an implementation bind no member)
        st_local = {m["name"] for m in st if m["k"] != "star" and not (m["k"] == "overloads" and m.get("impl") is None)}
        star = next(m for m in st if m["k"] == "star")
        st = [m for m in st if m["k"] != "star"] + [{"k": "import", "name": n, "from": star["from"], "orig": n} for n in _STAR_NAMES if n not in st_local]
    rt_by = {m["name"]: m for m in rt}
    for m in rt:
        out[m["name"]] = exp_alone(m, "rt")
    for s in st:
        name = s["name"]
        r = rt_by.get(name)
        if r is None:
            e = exp_alone(s, "st")
            if e is not None:
                if not nested_stub_only and e.get("runtime") is ANY:
                    e["runtime"] = False  # stub-only member: marked unavailable at runtime
                out[name] = e
            continue
        if s["k"] == "import" or r["k"] == "import":
            continue  # imported stub objects are not merged; a runtime alias keeps being that alias
        e = out[name]
        sk = "func" if s["k"] == "overloads" and s["impl"] is not None else s["k"]
        if s["k"] == "overloads" and r["k"] == "func":
            e["overloads"] = [_sig(x["params"], x["ret"]) for x in s["sigs"]]
        if sk != r["k"]:
            continue  # mismatched kinds (or overloads without implementation): runtime member untouched
        e["doc"] = _merge_doc(r.get("doc"), (s["impl"] or {}).get("doc") if s["k"] == "overloads" else s.get("doc"))
        if r["k"] == "func":
            sp, sr = (s["impl"]["params"], s["impl"]["ret"]) if s["k"] == "overloads" else (s["params"], s["ret"])
            e.update(_merge_sig(r["params"], r["ret"], sp, sr))
        elif r["k"] == "attr":
            e["ann"] = s["ann"] if s["ann"] is not None else either(None, r["ann"])
        elif r["k"] == "class":
            e["members"] = exp_container(r["members"], s["members"])
    for m in rt:
        if m.get("guard") and m["name"] in out:
            # runtime members of a guarded class are guarded; members the stubs add below it keep their own flag
            rt_names = {c["name"] for c in m.get("members", [])} if m["k"] == "class" else set()
            node = out[m["name"]]
            node["runtime"] = False
            for cname, child in (node.get("members") or {}).items():
                if cname in rt_names:
                    _mark_guarded(child)
    return out


_STAR_NAMES: list = []


def exp_world(world):
    mods = world["modules"]
    impl = mods.get(world.get("impl", "pkg._impl"))
    _STAR_NAMES[:] = [m["name"] for m in impl["rt"]["members"] if not m["name"].startswith("_")] if impl and impl["rt"] else []

    def build(mp):
        sides = mods[mp]
        rt, st = sides["rt"], sides["st"]
        if rt is not None and st is not None:
            node = {"kind": "module", "doc": _merge_doc(rt["doc"], st["doc"]), "members": exp_container(rt["members"], st["members"]), "runtime": True}
        elif rt is not None:
            node = {"kind": "module", "doc": _doc(rt["doc"]), "members": exp_container(rt["members"], []), "runtime": True}
        else:
            # a module that only the stubs package has is added by the merge and marked unavailable at runtime; inside
            # the package itself a lone x.pyi is simply loaded as the module x
            node = {"kind": "module", "doc": _doc(st["doc"]), "members": exp_container([], st["members"], nested_stub_only=True), "runtime": False if world["placement"] == "stubs_pkg" or world.get("single_stubs_pkg") else ANY}
        if rt is not None and any(m.get("guard") for m in _all_members(rt["members"])):
            node["members"].setdefault("TYPE_CHECKING", {"kind": "alias", "target": "typing.TYPE_CHECKING", "runtime": ANY})
        if rt is not None and any(m.get("rt_overloads") for m in _all_members(rt["members"])):
            node["members"].setdefault("overload", {"kind": "alias", "target": "typing.overload", "runtime": ANY})
        if st is not None and any(m["k"] == "overloads" for m in _all_members(st["members"])):
            # the rendered stub file starts with `from typing import overload`
            node["members"].setdefault("overload", {"kind": "alias", "target": "typing.overload", "runtime": ANY})
        if mp == world.get("impl", "pkg._impl"):
            node = {"kind": "module", "members_at_least": sorted(m["name"] for m in rt["members"])}
            return node
        rex = world.get("reexported_module")
        for other in mods:
            if other.startswith(mp + ".") and "." not in other[len(mp) + 1 :]:
                child = other[len(mp) + 1 :]
                if rex and mp == world["top"] and child == rex["public"] and f"{mp}.{rex['private']}" in mods:
                    continue  # stays the runtime alias; its stubs are merged into the module it leads to (below)
                node["members"][child] = build(other)
        if rex and mp == world["top"] and f"{mp}.{rex['private']}" in mods and f"{mp}.{rex['public']}" in mods:
            rt_side, st_side = mods[f"{mp}.{rex['private']}"]["rt"], mods[f"{mp}.{rex['public']}"]["st"]
            if rt_side is not None and st_side is not None:
                node["members"][rex["private"]] = {"kind": "module", "doc": _merge_doc(rt_side["doc"], st_side["doc"]), "members": exp_container(rt_side["members"], st_side["members"]), "runtime": True}
                if any(m.get("rt_overloads") for m in _all_members(rt_side["members"])):
                    node["members"][rex["private"]]["members"].setdefault("overload", {"kind": "alias", "target": "typing.overload", "runtime": ANY})
        return node

    return build(world["top"])


def match(exp, real, path="") -> str | None:
    """First mismatch between an expectation (with ANY / either markers) and a normalised real value."""
    if isinstance(exp, dict) and "__any__" in exp:
        return None
    if isinstance(exp, dict) and "__either__" in exp:
        if any(match(alt, real, path) is None for alt in exp["__either__"]):
            return None
        return f"{path}: {real!r} not in {exp['__either__']!r}"
    if isinstance(exp, dict) and "members_at_least" in exp:
        if not isinstance(real, dict) or real.get("kind") != "module":
            return f"{path}: expected module, got {real!r}"
        missing = [n for n in exp["members_at_least"] if n not in real["members"]]
        return f"{path}: members lost: {missing}" if missing else None
    if isinstance(exp, dict):
        if not isinstance(real, dict):
            return f"{path}: expected {_brief(exp)}, got {real!r}"
        if "kind" in exp and exp.get("kind") != real.get("kind"):
            return f"{path}: kind {real.get('kind')!r}, expected {exp.get('kind')!r}"
        for k in exp:
            if k == "members":
                em, rm = exp["members"], real.get("members", {})
                lost = sorted(set(em) - set(rm))
                extra = sorted(set(rm) - set(em))
                if lost:
                    return f"{path}: members lost: {lost}"
                if extra:
                    return f"{path}: unexpected members: {extra}"
                for name in em:
                    r = match(em[name], rm[name], f"{path}.{name}" if path else name)
                    if r:
                        return r
            else:
                r = match(exp[k], real.get(k), f"{path}[{k}]")
                if r:
                    return r
        return None
    if isinstance(exp, list):
        if not isinstance(real, list) or len(exp) != len(real):
            return f"{path}: {real!r} != {exp!r}"
        for i, (a, b) in enumerate(zip(exp, real)):
            r = match(a, b, f"{path}[{i}]")
            if r:
                return r
        return None
    return None if exp == real else f"{path}: {real!r} != {exp!r}"


def _brief(x):
    s = repr(x)
    return s if len(s) < 120 else s[:117] + "..."


# ------------------------------------------------------------------------------------------------
# Normalising the real tree (raw members dicts only; never dereferences aliases)


def _s(x):
    return None if x is None else str(x)


def norm(obj):
    if obj.is_alias:
        return {"kind": "alias", "target": obj.target_path, "runtime": obj.runtime}
    doc = obj.docstring.value if obj.docstring is not None and obj.docstring.value else None
    d = {"kind": obj.kind.value, "doc": doc, "runtime": obj.runtime}
    if obj.kind.value == "function":
        d["params"] = [[p.name, _s(p.annotation)] for p in obj.parameters]
        d["returns"] = _s(obj.returns)
        ov = obj.overloads
        d["overloads"] = [{"params": [[p.name, _s(p.annotation)] for p in o.parameters], "returns": _s(o.returns)} for o in ov] if ov else None
    elif obj.kind.value == "attribute":
        d["ann"] = _s(obj.annotation)
    else:
        d["members"] = {name: norm(m) for name, m in obj.members.items()}
    return d


# ------------------------------------------------------------------------------------------------
# Alias-resolution monitor


class ResolveMonitor:
    """Records Alias.resolve_target calls made while a merger.py frame is on the stack."""

    def __init__(self):
        self.calls = []

    def installed(self):
        import _griffe.models as models

        mon = self
        orig = models.Alias.resolve_target

        def wrapper(alias):
            f = sys._getframe(1)
            depth = 0
            in_merge = False
            while f is not None and depth < 40:
                if f.f_code.co_filename.endswith("merger.py"):
                    in_merge = True
                    break
                f = f.f_back
                depth += 1
            if in_merge:
                mon.calls.append(alias)
            return orig(alias)

        class _Cm:
            def __enter__(self_inner):
                models.Alias.resolve_target = wrapper
                return mon

            def __exit__(self_inner, *a):
                models.Alias.resolve_target = orig
                return False

        return _Cm()


def _stub_real_defs(world):
    """container dotted path -> names the stubs declare there as real definitions (incl. overload groups)."""
    out = {}

    def rec(path, members):
        out[path] = {m["name"] for m in members if m["k"] != "import"}
        for m in members:
            if m["k"] == "class":
                rec(f"{path}.{m['name']}", m["members"])

    for mp, sides in world["modules"].items():
        if sides["st"] is not None:
            rec(mp, sides["st"]["members"])
    for mp, sides in world["modules"].items():
        if sides["st"] is not None and "." in mp:
            parent, leaf = mp.rsplit(".", 1)
            out.setdefault(parent, set()).add(leaf)  # a stubs module re-declares the name it has in its package
    return out


def judge_monitor(ctx, mon, world):
    defs = _stub_real_defs(world)
    for alias in mon.calls:
        parent = alias._parent
        mod = parent
        while mod is not None and not getattr(mod, "is_module", False):
            mod = getattr(mod, "_parent", None) if getattr(mod, "is_alias", False) else mod.parent
        try:
            suffix = mod.filepath.suffix if mod is not None and not isinstance(mod.filepath, list) else ""
        except Exception:  # noqa: BLE001
            suffix = ""
        try:
            cpath = parent.path
        except Exception:  # noqa: BLE001
            cpath = "?"
        if suffix == ".pyi":
            ctx.fail("M-resolve-stub-alias", f"merging resolved stub-side alias {cpath}.{alias.name} -> {alias.target_path}", tags=["stub-side"])
            return
        # stubs may sit at the public location of a re-exported class (pkg.sub.C for pkg._impl.C): a re-declaration
        # in a stub class of that name counts for the class the re-export leads to
        # (the re-export may rename: `from pkg._impl import C as m` with the stubs declaring class m)
        elsewhere = set().union(*[names for path, names in defs.items() if "." in path and cpath.startswith(world.get("impl", "pkg._impl") + ".")] or [set()])
        if alias.name not in defs.get(cpath, ()) and alias.name not in elsewhere:
            ctx.fail("M-resolve-runtime-alias", f"merging resolved runtime alias {cpath}.{alias.name} -> {alias.target_path} although the stubs do not re-declare it", tags=["runtime-side"])
            return
        ctx.probe("merge-into-alias-target")


# ------------------------------------------------------------------------------------------------
# Execution


def _trigger_tags(world):
    """Tags computed from the plan that name known trigger conditions."""
    tags = set()
    for mp, sides in world["modules"].items():
        if sides["rt"] is None or sides["st"] is None:
            continue

        def rec(rt, st):
            rt_by = {m["name"]: m for m in rt}
            for s in st:
                r = rt_by.get(s["name"])
                if s["k"] == "overloads":
                    if s["impl"] is not None and (r is None or r["k"] == "func"):
                        tags.add("overloads-on-stub-impl")
                    if r is not None and r["k"] == "import":
                        tags.add("overloads-for-runtime-alias")
                if r is not None and s["k"] == "class" and r["k"] == "class":
                    rec(r["members"], s["members"])

        rec(sides["rt"]["members"], sides["st"]["members"])
        # stubs of a sub-module are merged while the package is being loaded, i.e. before wildcard imports are expanded
        if world["placement"] != "stubs_pkg" and mp != world["top"] and any(m["k"] == "star" for m in sides["rt"]["members"]):
            local = {m["name"] for m in sides["rt"]["members"]}
            impl = world["modules"].get(world.get("impl", "pkg._impl"))
            star_names = {m["name"] for m in impl["rt"]["members"]} if impl and impl["rt"] else set()
            if any(s["name"] in star_names and s["name"] not in local for s in sides["st"]["members"]):
                tags.add("submodule-stubs-redeclare-wildcard-reexport")
    return sorted(tags)


def facts(w, obj):
    """Everything about a runtime object that merging stubs has no business changing (raw attributes only)."""
    if obj.is_alias:
        return (("alias", obj.target_path, obj.alias_lineno, obj.alias_endlineno), None)
    f = [obj.kind.value, obj.lineno, obj.endlineno, tuple(sorted(obj.labels))]
    fp = obj._filepath if obj.is_module else None
    if fp is not None and not isinstance(fp, list):
        f.append(w.norm(str(fp)))
    if obj.kind.value == "function":
        f.append(tuple((p.name, str(p.kind), _s(p.default)) for p in obj.parameters))
        f.append(tuple(str(d.value) for d in obj.decorators))
    elif obj.kind.value == "attribute":
        f.append(_s(obj.value))
    elif obj.kind.value == "class":
        f.append(tuple(str(b) for b in obj.bases))
        f.append(tuple(str(d.value) for d in obj.decorators))
    doc = ("doc", obj.docstring.value, obj.docstring.lineno) if obj.docstring is not None and obj.docstring.value else None
    return (tuple(f), doc)


def runtime_facts(w, top):
    out = {}

    def rec(obj, path):
        out[path] = facts(w, obj)
        if not obj.is_alias:
            for name, m in obj.members.items():
                rec(m, f"{path}.{name}")

    rec(top, top.name)
    return out


def _first_detached(top):
    seen = set()

    def rec(obj, path):
        if id(obj) in seen:
            return None
        seen.add(id(obj))
        for name, m in obj.members.items():
            par = m._parent if m.is_alias else m.parent
            if par is not obj:
                return f"{path}.{name}: parent is {par!r}, expected its container {obj!r}"
            if m.name != name:
                return f"{path}.{name}: member is named {m.name!r}"
            if not m.is_alias:
                # overload lists live on functions, overload tables (name -> list) on modules and classes
                ov = getattr(m, "overloads", None)
                if m.kind.value in ("module", "class") and not isinstance(ov, dict):
                    return f"{path}.{name}: a {m.kind.value} carries {type(ov).__name__} as its overloads table"
                if m.kind.value == "function" and not (ov is None or isinstance(ov, list)):
                    return f"{path}.{name}: a function carries {type(ov).__name__} as its overloads"
            if not m.is_alias:
                r = rec(m, f"{path}.{name}")
                if r:
                    return r
        return None

    return rec(top, top.name)


def public_location_stub_members(world):
    """[(module, impl class name, stub-only member names)] for stub classes declared where the runtime side re-exports a
    class of pkg._impl - only where the merge happens after the whole package is loaded (top-level module, or a
    separate stubs package), so that the re-export can be followed."""
    mods = world["modules"]
    impl = mods.get(world.get("impl", "pkg._impl"))
    if not impl or not impl["rt"]:
        return []
    impl_by = {m["name"]: m for m in impl["rt"]["members"]}
    out = []
    for mp, sides in mods.items():
        if not (sides["rt"] and sides["st"]) or mp == world.get("impl", "pkg._impl"):
            continue
        if not (mp == world["top"] or world["placement"] == "stubs_pkg"):
            continue
        if any(m["k"] == "star" for m in sides["rt"]["members"]):
            continue
        for r in sides["rt"]["members"]:
            if r["k"] != "import" or r.get("from") != world.get("impl", "pkg._impl") or r.get("guard"):
                continue
            target = impl_by.get(r["orig"])
            st = next((m for m in sides["st"]["members"] if m["name"] == r["name"]), None)
            if target is None or st is None or target["k"] != "class" or st["k"] != "class":
                continue
            have = {m["name"] for m in target["members"]}
            # (overloads without an implementation are no members of the stub class either)
            only = sorted(m["name"] for m in st["members"] if m["name"] not in have and m["k"] != "star" and not (m["k"] == "overloads" and m.get("impl") is None))
            if only:
                out.append((mp, r["orig"], only))
    return out


def stub_only_overload_tables(world):
    """[(dotted path of a class only the stubs have, method name, number of overloads)] for overload groups without
    implementation: they are no members, they live in the class's overloads table, which moves with the class."""
    out = []

    def rec(path, rt_members, st_members, inside_stub_only):
        rt_by = {m["name"]: m for m in rt_members or []}
        for s in st_members:
            if s["k"] != "class":
                continue
            r = rt_by.get(s["name"])
            if r is None and rt_members is not None and any(m["k"] == "star" for m in rt_members):
                continue  # may be re-exported by the wildcard: not stub-only for sure
            stub_only = inside_stub_only or r is None
            if stub_only:
                for m in s["members"]:
                    if m["k"] == "overloads" and m.get("impl") is None:
                        out.append((f"{path}.{s['name']}", m["name"], len(m["sigs"])))
                rec(f"{path}.{s['name']}", None, s["members"], True)
            elif r["k"] == "class":
                rec(f"{path}.{s['name']}", r["members"], s["members"], False)

    for mp, sides in world["modules"].items():
        if sides["st"] is not None and mp != "pkg.compat":
            rec(mp, sides["rt"]["members"] if sides["rt"] else None, sides["st"]["members"], sides["rt"] is None)
    return out


def _source_inspect(module_name, filepath=None, parent=None, lines_collection=None, modules_collection=None, **kwargs):
    """Stand-in for the inspector (STUB): a compiled module cannot be generated, so the file carries the source text
    it was 'compiled' from and is analysed statically; the resulting module keeps the compiled file as its path."""
    import griffe

    if filepath is None or str(filepath).endswith((".py", ".pyi")):
        raise ImportError(f"stand-in inspector: refusing {module_name} ({filepath})")
    code = _real_read_text(Path(filepath), encoding="utf-8-sig")
    return griffe.visit(module_name, filepath=Path(filepath), code=code, parent=parent, lines_collection=lines_collection, modules_collection=modules_collection)


@contextmanager
def _inspector_for(world):
    import _griffe.loader as gl

    if not world.get("compiled"):
        yield False
        return
    orig = gl.inspect
    gl.inspect = _source_inspect
    try:
        yield True
    finally:
        gl.inspect = orig


def load_runtime_only(griffe, world):
    """The same world without any stubs: what the runtime side alone looks like."""
    files = render_world(world)
    sp0 = {rel: src for rel, src in files[0].items() if not rel.endswith(".pyi") and "-stubs/" not in rel}
    if not any(rel.startswith(world["top"]) for rel in sp0):
        return None
    with World([sp0], tag="c19r-") as w:
        try:
            with _inspector_for(world) as insp:
                collection = None
                if world.get("preload_impl") and world.get("impl") in world["modules"]:
                    collection = griffe.ModulesCollection()
                    griffe.load(world["impl"], search_paths=w.sp_dirs, allow_inspection=False, try_relative_path=False, modules_collection=collection)
                top = griffe.load(world["top"], search_paths=w.sp_dirs, allow_inspection=insp, try_relative_path=False, modules_collection=collection)
        except Exception:  # noqa: BLE001
            return None
        return runtime_facts(w, top)


def execute(plan, ctx):
    import griffe

    world = plan["world"]
    expected = exp_world(world)
    tags = _trigger_tags(world)
    files = render_world(world)
    trees = []
    base_facts = load_runtime_only(griffe, world)
    with World(files, tag="c19-") as w:
        for si, sched in enumerate(plan["schedules"]):
            seam = ListingSeam(w.root, sched, None)
            mon = ResolveMonitor()
            ctx.steps += 1
            tree = None
            with seam.installed(), mon.installed(), _inspector_for(world) as insp:
                try:
                    # the search path holding the stubs package may come before or after the one with the runtime package
                    sps = list(reversed(w.sp_dirs)) if world.get("stubs_sp_first") else w.sp_dirs
                    collection = None
                    if world.get("preload_impl") and world.get("impl") in world["modules"]:
                        # a long-lived loader / shared collection that already holds the private sibling package
                        collection = griffe.ModulesCollection()
                        griffe.load(world["impl"], search_paths=sps, allow_inspection=False, try_relative_path=False, modules_collection=collection)
                        ctx.probe("implementation-package-loaded-before")
                    top = griffe.load(
                        world["top"],
                        search_paths=sps,
                        allow_inspection=insp,
                        try_relative_path=False,
                        find_stubs_package=world.get("find_stubs_package", world["placement"] == "stubs_pkg"),
                        modules_collection=collection,
                    )
                    tree = norm(top)
                except Exception as e:  # noqa: BLE001
                    ctx.log("load", (si, repr(sched), "raised", type(e).__name__))
                    ctx.fail("E-load-raised", f"load raised {type(e).__name__}: {w.norm(str(e))[:300]} (schedule {sched})", exc=e, tags=tags)
                    return
            if seam.decisions:
                ctx.nontrivial = True
                ctx.probe("directory-listings-with-a-choice-of-order", seam.decisions)
                ctx.probe("schedule-stub-first" if sched.get("stub_first") else "schedule-source-first")
            ctx.log("load", (si, repr(sched), seam.decisions, core.hash_key(tree)))
            mism = match(expected, tree)
            if mism:
                ctx.fail("R-model", f"merged tree differs from the reference merge: {mism} (schedule {sched})", tags=tags)
                return
            # structural sanity of the merged tree: every member (runtime, merged or stub-only) hangs below its
            # container, and the merged top-level module is the runtime one
            bad = _first_detached(top)
            if bad:
                ctx.fail("S-structure", f"merged tree is inconsistent: {bad} (schedule {sched})", tags=tags)
                return
            if base_facts is not None:
                # differential: nothing the runtime side knows (kind, span, value, labels, decorators, bases,
                # parameter names/kinds/defaults, file, non-empty docstring) may be lost or altered by the merge
                merged_facts = runtime_facts(w, top)
                for path, f0 in base_facts.items():
                    if path.startswith(world.get("impl", "pkg._impl")):
                        continue  # targets of runtime aliases that the stubs re-declare may legitimately be merged into
                    f1 = merged_facts.get(path)
                    # a runtime docstring must survive; where there was none the stubs may provide one
                    if f1 is None or f1[0] != f0[0] or (f0[1] is not None and f1[1] != f0[1]):
                        ctx.fail("D-runtime-altered", f"{path}: runtime facts changed by merging stubs: {f0} -> {f1} (schedule {sched})", tags=tags)
                        return
                ctx.probe("differential-runtime-facts-compared", len(base_facts))
            # stub-only members of a class whose stubs sit at its public (re-exporting) location end up in the class
            for mp, cname, only in public_location_stub_members(world):
                implname = world.get("impl", "pkg._impl")
                impl_mod = top.members.get("_impl") if "." in implname else top.modules_collection.members.get(implname)
                cls = impl_mod.members.get(cname) if impl_mod is not None and not impl_mod.is_alias else None
                if cls is None or cls.is_alias:
                    continue
                for n in only:
                    got = cls.members.get(n)
                    if got is None or got.runtime is not False:
                        what = "is lost" if got is None else "is not marked unavailable at runtime"
                        ctx.fail("M-stub-only-through-reexport", f"{mp}: the stubs declare class {cname} where the runtime re-exports pkg._impl.{cname}; its stub-only member {n!r} {what} (schedule {sched})", tags=tags)
                        return
                ctx.probe("stub-only-members-through-reexport-checked", len(only))
            # overload groups of a class that only the stubs have travel with the class
            for cpath, mname, n in stub_only_overload_tables(world):
                obj = top
                try:
                    for part in cpath.split(".")[1:]:
                        obj = obj.members[part]
                except KeyError:
                    continue
                if obj.is_alias or obj.kind.value != "class":
                    continue
                table = obj.overloads if isinstance(obj.overloads, dict) else {}
                if len(table.get(mname) or ()) != n:
                    ctx.fail("M-stub-only-overloads-lost", f"{cpath}: the class exists only in the stubs, which declare {n} overloads of {mname!r}; the merged class has {len(table.get(mname) or ())} (schedule {sched})", tags=tags)
                    return
                ctx.probe("stub-only-overload-tables-checked")
            judge_monitor(ctx, mon, world)
            if ctx.failures:
                return
            trees.append((sched, tree))
        # same base order, different order inside (module, stubs) pairs: the result must not change
        by_base = {}
        for sched, tree in trees:
            key = repr(sched.get("base"))
            if key in by_base and by_base[key][1] != tree:
                ctx.fail("O-order", f"tree differs between {by_base[key][0]} and {sched}: {match(by_base[key][1], tree)}", tags=tags)
                return
            by_base.setdefault(key, (sched, tree))
        if len({core.hash_key(t) for _, t in trees}) > 1:
            ctx.probe("differs-across-base-orders(C14 matter)")
    n_both = sum(1 for s in world["modules"].values() if s["rt"] and s["st"])
    ctx.probe(f"placement-{world['placement']}")
    if world.get("reexported_module"):
        ctx.probe("stubs-at-public-location-of-reexported-module")
    if world.get("compiled"):
        ctx.probe("compiled-runtime-modules-with-stubs", sum(1 for mp in world["compiled"] if world["modules"].get(mp, {}).get("st")))
    ctx.probe("modules-with-both-sides", n_both)
    ctx.cover.append((world["placement"], core.hash_key(trees[0][1]) if trees else 0, len(plan["schedules"])))


# ------------------------------------------------------------------------------------------------
# Shrinking


def _member_reductions(members):
    for red in core.list_reductions(members):
        yield red
    for i, m in enumerate(members):
        if m["k"] == "class":
            for sub in _member_reductions(m["members"]):
                new = copy.deepcopy(m)
                new["members"] = sub
                yield members[:i] + [new] + members[i + 1 :]
        simple = None
        if m["k"] == "func" and (m["params"] or m["ret"] or m["doc"]):
            simple = {**m, "params": [p for p in m["params"] if p[0] == "self"], "ret": None, "doc": None}
        elif m["k"] == "attr" and m["doc"]:
            simple = {**m, "doc": None}
        elif m["k"] == "class" and m["doc"]:
            simple = {**m, "doc": None}
        elif m["k"] == "overloads" and len(m["sigs"]) > 1:
            simple = {**m, "sigs": m["sigs"][:1]}
        if simple is not None:
            yield members[:i] + [simple] + members[i + 1 :]


def shrink_candidates(plan):
    world = plan["world"]
    if len(plan["schedules"]) > 1:
        for red in core.list_reductions(plan["schedules"]):
            if red:
                yield {**plan, "schedules": red}
    for i, s in enumerate(plan["schedules"]):
        if s.get("base", {}).get("mode") == "hash":
            for simple in ({"mode": "sorted"}, {"mode": "reversed"}):
                scheds = [({**x, "base": simple} if x.get("base") == s["base"] else x) for x in plan["schedules"]]
                yield {**plan, "schedules": scheds}
    mods = world["modules"]
    for mp in list(mods):
        if mp in (world["top"], world.get("impl", "pkg._impl")):
            continue
        if any(o.startswith(mp + ".") for o in mods):
            continue
        new = {k: v for k, v in mods.items() if k != mp}
        yield {**plan, "world": {**world, "modules": new}}
    for mp, sides in mods.items():
        for side in ("rt", "st"):
            if sides[side] is None:
                continue
            for red in _member_reductions(sides[side]["members"]):
                new_side = {**sides[side], "members": red}
                yield {**plan, "world": {**world, "modules": {**mods, mp: {**sides, side: new_side}}}}
            if sides[side]["doc"]:
                yield {**plan, "world": {**world, "modules": {**mods, mp: {**sides, side: {**sides[side], "doc": None}}}}}
    if world.get("stubs_other_sp"):
        yield {**plan, "world": {**world, "stubs_other_sp": False}}


def sample_view(plan):
    w = plan["world"]
    files = render_world(w)
    return {
        "seed": plan["seed"],
        "placement": w["placement"],
        "schedules": plan["schedules"],
        "files": {f"sp{i}/{rel}": src[:400] for i, sp in enumerate(files) for rel, src in list(sp.items())[:4]},
    }


class _Prop:
    ID = "C19"
    TIERS = {
        "quick": {"runs": 14_000, "wall": 75, "det_n": 150, "shrink_s": 40},
        "thorough": {"runs": 400_000, "wall": 1100, "det_n": 1000, "shrink_s": 120},
    }
    OPTS = {"chunk": 100, "chunk_wall": 300}
    REPLAY_IN_PARENT = True
    RULE = (
        "one run = one generated (runtime tree, stubs tree) world (1-6 modules, names f,g,C,D,x,y,imp / m,n,K,v, "
        "random overlap, kind mismatches, imports on either side, @overload groups with and without implementation, "
        "nested classes) in one of three stub placements, loaded under 2 or 4 listing schedules = 1-2 base orders "
        "(sorted, reversed, hashed permutation of every directory listing) x {x.py before x.pyi, x.pyi before x.py}; "
        "each load is compared with a reference merge model and monitored for alias resolution inside merger.py, "
        "and the two pair orders of one base order must give the same normalised tree. Non-trivial = at least one directory listing had a choice of order; distinct = "
        "distinct (placement, merged-tree hash, number of schedules), counted with a set of 64-bit hashes. Also drawn: decorators, class bases, properties with setters/deleters, shuffled stub parameter order, wildcard re-exports (`from pkg._impl import *`) in runtime modules, find_stubs_package independent of the placement, either order of the two search paths; every load is additionally compared with a stubs-free load of the same world (no runtime fact may change) and checked for parent/container consistency. Round t/u: parameter name pools (dunder / underscore / non-ASCII), runtime functions with @overload signatures of their own, byte order marks. Round s: the implementation module as a private sibling package held by the collection before the load. Round r: wildcard imports that only the stubs have. Round j/k: members under `if TYPE_CHECKING:`; runtime modules that exist only in compiled form (.so/.pyd/.pyc next to their stubs, analysed through a stand-in inspector); stubs declared at the public location of a class the runtime re-exports (its stub-only members must reach the class)."
    )
    COMPONENTS = {
        "real": ["_griffe.loader", "_griffe.finder", "_griffe.agents.visitor", "_griffe.merger", "_griffe.mixins.set_member", "_griffe.models", "real files on tmpfs"],
        "stubbed": ["inspector (only in worlds with compiled runtime modules): the generated .so/.pyd/.pyc file carries the source text it stands for and is analysed statically, keeping the compiled file as the module's path - a real extension module cannot be generated"],
        "seams": ["os.scandir/os.listdir order (ListingSeam)", "Alias.resolve_target recording wrapper (monitor)", "_griffe.loader.inspect (stand-in)"],
    }
    ASSUMPTIONS = [
        "reference merge model (~90 lines) written from the property statement",
        "when the stubs give no annotation for a parameter/return/attribute both readings (None, runtime's) are accepted",
        "a runtime alias that the stubs re-declare as a real definition may be resolved by the merge (upstream test_merge_stubs_on_wildcard_imported_objects)",
        "sampling, not enumeration",
    ]

    generate = staticmethod(generate)
    execute = staticmethod(execute)
    shrink_candidates = staticmethod(shrink_candidates)
    sample_view = staticmethod(sample_view)


PROP = _Prop()
