"""C06 - Alias resolution is total, all-or-nothing and cycle-safe on any import graph.

World: 1-3 small packages (plus a private sibling `_p`, an existing-but-unloaded `ext`, and names that exist
nowhere) whose modules import from one another freely: self-imports, cycles, cyclic wildcards, dangling targets.
History: loads in any order through one or two loaders sharing a collection, resolve_aliases with every flag
combination, lazy dereferences of arbitrary aliases through every accessor, direct expand_* calls.
Faults: syntax errors and injected read failures in packages that are loaded lazily *during* resolution.
Invariants after every operation: error discipline (I1), termination by a deterministic call budget (I2),
all-or-nothing chains and no leftover in-progress markers (I3), fix-point of resolve_aliases (I4), nothing that
exists nowhere is ever reported resolved (I5).
"""

from __future__ import annotations

import copy
import os
import signal
import sys

from simgriffe import core
from simgriffe.seams import ReadSeam, World

PKGS = ["p", "q", "r"]
MODS = ["x", "y"]
NAMES = ["f", "g", "h", "C"]
ACCESSORS_NEVER_RAISE = ["resolved", "kind", "has_docstring", "has_docstrings", "is_alias", "as_json"]
ACCESSORS_ALIAS_ERRORS = [
    "target", "final_target", "members", "docstring", "lineno", "endlineno", "is_public", "canonical_path", "labels", "filepath",
    "is_module", "is_class", "is_function", "is_attribute", "aliases", "inherited_members", "parameters_or_bases", "as_json_full",
    "all_members", "attributes", "classes", "functions", "modules", "is_exported", "is_imported", "is_wildcard_exposed",
    "is_private", "is_special", "is_class_private", "is_deprecated", "is_init_module", "is_package", "is_subpackage",
    "is_namespace_package", "is_namespace_subpackage", "lines", "source", "module", "package", "exports", "imports", "extra",
    "relative_filepath", "relative_package_filepath", "mro", "resolved_bases", "path", "wildcard", "parent", "modules_collection",
    "resolve_name", "getitem", "len", "repr",
    # kind-specific proxies (AttributeError when the final target is of another kind is Python's own answer)
    "decorators", "overloads", "parameters", "returns", "bases", "value", "annotation", "setter", "deleter", "signature",
]
# accessors that document further exception types of their own
ACCESSOR_EXTRA_ERRORS = {
    "relative_filepath": (ValueError,),
    "relative_package_filepath": (ValueError,),
    "filepath": (ValueError,),
    "module": (ValueError,),
    "package": (ValueError,),
    "lines": (ValueError,),
    "source": (ValueError,),
    "mro": (ValueError, AttributeError),
    "resolved_bases": (AttributeError,),
    "resolve_name": (),
    "as_json_full": (ValueError,),  # relative_package_filepath documents ValueError (stub-only module of a -stubs package elsewhere)
    "getitem": (KeyError,),
    **{k: (AttributeError,) for k in ("decorators", "overloads", "parameters", "returns", "bases", "value", "annotation", "setter", "deleter", "signature")},
}
CALL_BUDGET = 50_000_000
OP_CPU_SECONDS = 20


class _Timeout(BaseException):
    pass


# ------------------------------------------------------------------------------------------------
# Generation


def _module_paths(layout):
    out = []
    for pkg, mods in layout.items():
        out.append(pkg)
        out += [f"{pkg}.{m}" for m in mods]
    return out


def _gen_target_module(rng, layout, here, cfg):
    r = rng.random()
    existing = _module_paths(layout)
    if r < 0.12:
        return here  # self import
    if r < 0.75:
        return rng.choice(existing)
    pool = []
    if cfg["dangling"]:
        pool += [f"{here.split('.')[0]}.zz", "nopkg", "nopkg.x"]
    if cfg["external"]:
        pool += ["ext", "ext.x", f"_{here.split('.')[0]}", f"_{here.split('.')[0]}.x"]
    return rng.choice(pool) if pool else rng.choice(existing)


def _as_relative(rng, here, is_init, target):
    """Spell an absolute module path relative to `here` when possible (depth 1-2)."""
    here_pkg = here.split(".") if is_init else here.split(".")[:-1]
    t = target.split(".")
    for level in (1, 2):
        base = here_pkg[: len(here_pkg) - (level - 1)]
        if len(base) >= 1 and t[: len(base)] == base and len(here_pkg) - (level - 1) >= 1:
            rest = ".".join(t[len(base) :])
            return "." * level + rest
    return None


def _gen_stmt(rng, layout, here, is_init, cfg, idx, in_class=False):
    kinds = ["def", "def", "class", "attr", "from", "from", "from", "import", "star", "all"]
    if in_class:
        kinds = ["def", "from", "attr"]
    if cfg["allplus"] and not in_class:
        kinds += ["allplus", "allplus", "allplus"]
    k = rng.choice(kinds)
    if k in ("from", "import", "star") and not in_class and rng.random() < cfg.get("p_guarded", 0.0):
        inner = _gen_stmt(rng, layout, here, is_init, {**cfg, "p_guarded": 0.0}, idx)
        if inner["s"] in ("from", "import", "star"):
            return {"s": "guarded", "how": rng.choice(["type_checking", "try", "if"]), "stmt": inner}
        return inner
    if k == "def":
        st = {"s": "def", "name": rng.choice(NAMES), "doc": rng.random() < 0.4}
        if rng.random() < 0.12:
            # decorated with a module-scope name or an attribute of one - `@x.setter` on a function named x included,
            # whatever x is bound to at that point (the visitor looks the base property up while the module is visited)
            n = rng.choice([st["name"], st["name"], rng.choice(NAMES)])
            st["deco"] = rng.choice([n, f"{n}.setter", f"{n}.setter", f"{n}.deleter"])
        return st
    if k == "attr":
        return {"s": "attr", "name": rng.choice(NAMES)}
    if k == "class":
        body = [_gen_stmt(rng, layout, here, is_init, cfg, idx * 10 + j, in_class=True) for j in range(rng.choice([0, 1, 2]))]
        # bases are names of the module scope: local classes, imported (possibly cyclic or dangling) aliases, or itself
        bases = rng.sample(NAMES, rng.choice([0, 0, 1, 1, 2])) if cfg["bases"] else []
        if cfg["bases"] and bases and rng.random() < 0.3:
            # a base written as an attribute access: the path to it can pass through (dangling, cyclic) aliases
            bases[0] = rng.choice(MODS + ["m", "s"]) + "." + bases[0]
        st = {"s": "class", "name": rng.choice(["C", "C", "h"]), "body": body, "bases": bases}
        if rng.random() < 0.15:
            # decorated with a name of the module scope (a re-exported decorator: any alias, cyclic or dangling) or with
            # an attribute of one (`@m.f`): extensions look decorators up while the package is being loaded
            deco = rng.choice(NAMES)
            st["deco"] = deco if rng.random() < 0.7 else rng.choice(MODS + ["m", "s"]) + "." + deco
            if rng.random() < 0.3:
                st["deco"] += "(frozen=True)"
        if cfg.get("dataclasses") and rng.random() < 0.6:
            # the built-in dataclasses extension synthesises __init__ from the class body and the MRO while loading
            # (arguments unpacked from a module-level name: the extension looks that name up, and it can be any alias)
            st["dataclass"] = rng.choice(["dataclass", "dataclasses.dataclass", "dataclass(kw_only=True)", f"dataclass(**{rng.choice(NAMES)})"])
            for j in range(rng.choice([1, 2])):
                body.insert(rng.randrange(len(body) + 1), {"s": "annattr", "name": rng.choice(NAMES), "default": rng.choice([False, True, f"field(**{rng.choice(NAMES)})"])})
        return st
    target = _gen_target_module(rng, layout, here, cfg)
    spec = target
    if rng.random() < cfg["p_relative"]:
        rel = _as_relative(rng, here, is_init, target)
        if rel:
            spec = rel
    if k in ("from", "star") and rng.random() < 0.06:
        # a relative import with more dots than the module is deep (`from ... import x` in pkg/m.py): beyond the top
        spec = "." * rng.choice([2, 3, 4]) + rng.choice(["", "", "x", "zz"])
    if k == "from":
        names = NAMES + MODS + ["s", "m"]
        name = rng.choice(names)
        if spec.startswith(".") and spec.strip(".") == "" and rng.random() < 0.5:
            name = rng.choice(MODS + ["s"])
        return {"s": "from", "mod": spec, "name": name, "as": rng.choice([None, None, rng.choice(NAMES)])}
    if k == "import":
        return {"s": "import", "mod": target, "as": rng.choice([None, None, rng.choice(NAMES + ["m"])])}
    if k == "star":
        return {"s": "star", "mod": spec}
    if k == "all":
        return {"s": "all", "names": rng.sample(NAMES + ["zz"], rng.choice([0, 1, 2, 3]))}
    form = rng.choice(["from", "import", "aug", "via", "via"])
    st = {"s": "allplus", "mod": target, "form": form, "names": rng.sample(NAMES, rng.choice([0, 1, 2])), "i": idx}
    if form == "via":
        # the spliced module is reached through a name imported from somewhere else (possibly an alias of a module)
        if "." in target and rng.random() < 0.6:
            st["mod"], st["name"] = target.rsplit(".", 1)
        else:
            st["name"] = rng.choice(MODS + ["s", "m", "f"])
    return st


def _render_stmt(st, ind=""):
    s = st["s"]
    if s == "def":
        body = f'{ind}    """doc"""\n' if st.get("doc") else ""
        deco = f"{ind}@{st['deco']}\n" if st.get("deco") else ""
        return f"{deco}{ind}def {st['name']}():\n{body}{ind}    return None\n"
    if s == "attr":
        return f"{ind}{st['name']} = 1\n"
    if s == "annattr":
        default = st.get("default")
        if isinstance(default, str):
            return f"{ind}from dataclasses import field\n{ind}{st['name']}: int = {default}\n"
        return f"{ind}{st['name']}: int" + (" = 0" if default else "") + "\n"
    if s == "class":
        body = "".join(_render_stmt(b, ind + "    ") for b in st["body"]) or f"{ind}    pass\n"
        bases = f"({', '.join(st['bases'])})" if st.get("bases") else ""
        deco = ""
        if st.get("dataclass"):
            imp = "import dataclasses" if st["dataclass"].startswith("dataclasses.") else "from dataclasses import dataclass"
            deco = f"{ind}{imp}\n{ind}@{st['dataclass']}\n"
        if st.get("deco"):
            deco = deco + f"{ind}@{st['deco']}\n"
        return f"{deco}{ind}class {st['name']}{bases}:\n{body}"
    if s == "from":
        return f"{ind}from {st['mod']} import {st['name']}" + (f" as {st['as']}" if st["as"] else "") + "\n"
    if s == "import":
        return f"{ind}import {st['mod']}" + (f" as {st['as']}" if st["as"] else "") + "\n"
    if s == "star":
        return f"{ind}from {st['mod']} import *\n"
    if s == "all":
        return f"{ind}__all__ = {st['names']!r}\n"
    if s == "allplus":
        i = st["i"]
        if st["form"] == "from":
            return f"from {st['mod']} import __all__ as _all{i}\n__all__ = {st['names']!r} + _all{i}\n"
        if st["form"] == "import":
            return f"import {st['mod']} as _m{i}\n__all__ = [*_m{i}.__all__, {', '.join(repr(n) for n in st['names'])}]\n"
        if st["form"] == "via":
            return f"from {st['mod']} import {st['name']} as _m{i}\n__all__ = {st['names']!r} + _m{i}.__all__\n"
        return f"import {st['mod']} as _m{i}\n__all__ = {st['names']!r}\n__all__ += _m{i}.__all__\n"
    if s == "guarded":
        inner = _render_stmt(st["stmt"], ind + "    ")
        if st["how"] == "type_checking":
            return f"{ind}from typing import TYPE_CHECKING\n{ind}if TYPE_CHECKING:\n{inner}"
        if st["how"] == "try":
            return f"{ind}try:\n{inner}{ind}except ImportError:\n{ind}    pass\n"
        return f"{ind}if True:\n{inner}"
    if s == "doc":
        return f'{ind}"""module docstring"""\n'
    if s == "syntax_error":
        return "def broken(:\n"
    raise AssertionError(s)


def _gen_module(rng, layout, here, is_init, cfg):
    n = rng.choice([0, 1, 2, 3, 4, 5])
    stmts = [_gen_stmt(rng, layout, here, is_init, cfg, i) for i in range(n)]
    if rng.random() < 0.25:
        stmts.insert(0, {"s": "doc"})
    return stmts


def generate(rng, opts):
    cfg = {
        "dangling": rng.random() < 0.7,
        "external": rng.random() < 0.6,
        "allplus": rng.random() < 0.4,
        "p_relative": rng.choice([0.0, 0.3, 0.7]),
        "faults": rng.random() < 0.35,
        "wildcards": rng.random() < 0.75,
        "links": rng.random() < 0.3,
        "bases": rng.random() < 0.5,
        "p_guarded": rng.choice([0.0, 0.0, 0.3]),
        "dataclasses": rng.random() < 0.3,
    }
    n_pkgs = rng.choice([1, 1, 2, 2, 3])
    layout = {}
    for pkg in PKGS[:n_pkgs]:
        mods = rng.sample(MODS, rng.choice([0, 1, 2]))
        if rng.random() < 0.35:
            mods += ["s", "s." + rng.choice(MODS)]
        layout[pkg] = mods
    extra = {}
    if cfg["external"]:
        extra["ext"] = ["x"]
        extra["_p"] = ["x"]
    modules = {}
    full_layout = {**layout, **extra}
    for pkg, mods in full_layout.items():
        for mp in [pkg] + [f"{pkg}.{m}" for m in mods]:
            is_init = mp == pkg or mp.endswith(".s")
            stmts = _gen_module(rng, full_layout, mp, is_init, cfg)
            if not cfg["wildcards"]:
                stmts = [s for s in stmts if s["s"] != "star"]
            modules[mp] = {"init": is_init, "stmts": stmts}
    if cfg["allplus"] and rng.random() < 0.3:
        # motif: a ring of __all__ splices in which every hop goes through an alias of a module
        dotted = [mp for mp in modules if "." in mp and mp.split(".")[0] in layout]
        if dotted:
            ring = rng.sample(dotted, min(len(dotted), rng.choice([1, 1, 2])))
            holders = [rng.choice([mp for mp in modules if mp.split(".")[0] in layout]) for _ in ring]
            for i, x in enumerate(ring):
                parent, leaf = x.rsplit(".", 1)
                modules[holders[i]]["stmts"].insert(0, {"s": "from", "mod": parent, "name": leaf, "as": f"m{i}"})
            for i, x in enumerate(ring):
                j = (i + 1) % len(ring)
                modules[x]["stmts"].append({"s": "allplus", "mod": holders[j], "name": f"m{j}", "form": "via", "names": [rng.choice(NAMES)], "i": 90 + i})
    if cfg["wildcards"] and rng.random() < 0.25:
        # motifs around wildcard imports that random statements almost never line up (each was behind a repaired defect
        # that random generation met about once in 10^5 histories)
        own = [mp for mp in modules if mp.split(".")[0] in layout]
        for _ in range(rng.choice([1, 1, 2])):
            motif = rng.choice(["star-from-self-cyclic-name", "star-of-self-star", "star-through-module-alias", "star-imports-name-of-submodule"])
            holder = rng.choice(own)
            if motif == "star-from-self-cyclic-name":
                # `from .n import n` where no module n exists: the name is an alias whose target passes through itself
                pkg = rng.choice(list(layout))
                n = rng.choice([x for x in MODS + NAMES if f"{pkg}.{x}" not in modules] or ["zz"])
                modules[pkg]["stmts"].insert(0, {"s": "from", "mod": rng.choice([f".{n}", f"{pkg}.{n}"]), "name": n, "as": None})
                modules[holder]["stmts"].insert(rng.randrange(len(modules[holder]["stmts"]) + 1), {"s": "star", "mod": f"{pkg}.{n}"})
            elif motif == "star-of-self-star":
                # a module that wildcard-imports itself keeps an unexpandable placeholder; others import * from it,
                # and the package is also reachable through an alias of itself (`import pkg` inside pkg)
                x = rng.choice(own)
                # (above or below the module's own definitions: an expansion only overwrites what is defined earlier)
                spell = x if rng.random() < 0.6 or "." not in x or modules[x]["init"] else "." + x.rsplit(".", 1)[1]
                modules[x]["stmts"].insert(rng.randrange(len(modules[x]["stmts"]) + 1), {"s": "star", "mod": spell})
                if rng.random() < 0.5:
                    modules[x]["stmts"].insert(0, {"s": rng.choice(["def", "attr"]), "name": rng.choice(NAMES), "doc": False})
                modules[holder]["stmts"].insert(rng.randrange(len(modules[holder]["stmts"]) + 1), {"s": "star", "mod": x})
                if rng.random() < 0.7:
                    pkg = x.split(".")[0]
                    modules[pkg]["stmts"].append({"s": "import", "mod": pkg, "as": None})
            elif motif == "star-imports-name-of-submodule":
                # a package imports * from its submodule x, and x itself imports a name `x` from elsewhere: the imported
                # alias takes the submodule's slot; somebody else imports a name *through* that path, and one alias
                # somewhere can never be resolved (keeps resolve_aliases iterating)
                dotted = [mp for mp in own if "." in mp and not modules[mp]["init"]]
                if dotted:
                    x = rng.choice(dotted)
                    parent, leaf = x.rsplit(".", 1)
                    src = rng.choice([mp for mp in own if mp != x] + ["nopkg"])
                    modules[x]["stmts"].append({"s": "from", "mod": src, "name": leaf, "as": None})
                    modules[parent]["stmts"].append({"s": "star", "mod": rng.choice([x, "." + leaf])})
                    modules[holder]["stmts"].append({"s": "from", "mod": x, "name": rng.choice(NAMES + [leaf]), "as": rng.choice(NAMES)})
                    if rng.random() < 0.7:
                        modules[rng.choice(own)]["stmts"].append({"s": "from", "mod": rng.choice(["nopkg.x", "_p.x", f"{parent}.zz"]), "name": "x", "as": None})
            else:
                # the wildcard names its source through an alias of a module (`from pkg import mod as m`, `from holder.m import *`)
                dotted = [mp for mp in own if "." in mp]
                if dotted:
                    x = rng.choice(dotted)
                    parent, leaf = x.rsplit(".", 1)
                    modules[holder]["stmts"].insert(0, {"s": "from", "mod": parent, "name": leaf, "as": "m"})
                    user = rng.choice(own)
                    modules[user]["stmts"].append({"s": "star", "mod": f"{holder}.m"})
                    if rng.random() < 0.5:
                        modules[x]["stmts"].append({"s": "star", "mod": user})
    ring_motif = False
    if rng.random() < 0.04:
        # motif: modules that publicly re-export each other (or one of their own parents) in a world without any
        # docstring - `has_docstrings` then has to look into everything (random generation lines this up about once
        # in 15,000 histories; it was behind the repaired C06-KF1)
        own = [mp for mp in modules if mp.split(".")[0] in layout]
        x = rng.choice(own)
        y = rng.choice([mp for mp in own if mp != x] or [x])
        if rng.random() < 0.4 and "." in x:
            y = x.rsplit(".", 1)[0]  # one of its own parents
        for a, b, nm in ((x, y, "ry"), (y, x, "rx")):
            if "." in b:
                parent, leaf = b.rsplit(".", 1)
                modules[a]["stmts"].append({"s": "from", "mod": parent, "name": leaf, "as": nm})
            else:
                modules[a]["stmts"].append({"s": "import", "mod": b, "as": nm})
            modules[a]["stmts"].append({"s": "all", "names": [nm]})

        def _strip(stmts):
            out = []
            for st in stmts:
                if st["s"] == "doc":
                    continue
                st = dict(st)
                if "doc" in st:
                    st["doc"] = False
                if st["s"] == "class":
                    st["body"] = _strip(st["body"])
                if st["s"] == "guarded":
                    st["stmt"] = _strip([st["stmt"]])[0] if _strip([st["stmt"]]) else st["stmt"]
                out.append(st)
            return out

        for mp in modules:
            # (no wildcard imports in these worlds: paths through a ring of public module aliases, walked through the
            # member views of aliases, make some wildcard sources cost minutes - finite, but beyond any budget)
            modules[mp]["stmts"] = [st for st in _strip(modules[mp]["stmts"]) if st["s"] != "star" and not (st["s"] == "guarded" and st["stmt"]["s"] == "star")]
        ring_motif = True
    if rng.random() < 0.03:
        # motif: `import pkg.n as n` in the package itself, then `@n.setter def n()`: the name the decorator goes
        # through is an alias whose target path is the path of the function being defined
        pkg = rng.choice(list(layout))
        n = rng.choice(NAMES)
        modules[pkg]["stmts"] += [{"s": "import", "mod": f"{pkg}.{n}", "as": n}, {"s": "def", "name": n, "doc": False, "deco": f"{n}.{rng.choice(['setter', 'deleter'])}"}]
    pending_star_motif = None
    if rng.random() < 0.03 and not ring_motif:
        # motif: a wildcard import whose source path (`_p.x`) only exists once another wildcard (in `_p`, from `ext`)
        # has been expanded, both packages being loaded on demand during the same round (random generation lines
        # this up about once in 15,000 histories; it was behind the repaired C06-KF4)
        holder = rng.choice(list(layout))
        modules["ext"] = {"init": True, "stmts": [{"s": "from", "mod": "_p", "name": "x", "as": None}]}
        modules["ext.x"] = {"init": False, "stmts": [{"s": "def", "name": "g", "doc": False}]}
        modules["_p"] = {"init": True, "stmts": [{"s": "star", "mod": "ext"}]}
        modules.pop("_p.x", None)
        modules[holder]["stmts"] = [{"s": "star", "mod": "_p.x"}, {"s": "from", "mod": "ext", "name": "x", "as": "C"}] + [st for st in modules[holder]["stmts"] if st["s"] not in ("all", "allplus")]
        pending_star_motif = holder
    stubs = {}
    if cfg["external"] and rng.random() < 0.3 and pending_star_motif is None:
        # top-level stubs next to an external package; broken stubs make its on-demand load fail *after* the runtime
        # package was registered in the collection
        for pkg in rng.sample(["ext", "_p"], rng.choice([1, 2])):
            stubs[pkg] = rng.choice(["ok", "broken", "broken"])
    stubs_pkgs = {}
    if rng.random() < 0.2:
        # a separate <pkg>-stubs package (PEP 561) in another search path; it may hold stub-only modules whose imports
        # dangle like any other; the package is then loaded with find_stubs_package=True
        pkg = rng.choice(list(layout))
        smods = {"__init__": _gen_module(rng, full_layout, pkg, True, cfg)}
        for name in rng.sample(["extra", "x", "y"], rng.choice([1, 2])):
            smods[name] = _gen_module(rng, full_layout, f"{pkg}.{name}", False, cfg)
        stubs_pkgs[pkg] = {k: [st for st in v if st["s"] not in ("syntax_error",)] for k, v in smods.items()}
    faults = []
    if cfg["faults"]:
        victims = [mp for mp in modules if mp.split(".")[0] in extra] or list(modules)
        for _ in range(rng.choice([1, 1, 2])):
            v = rng.choice(victims)
            kind = rng.choice(["syntax", "oserror", "undecodable", "truncated"])
            if kind == "syntax":
                modules[v]["stmts"].append({"s": "syntax_error"})
            faults.append({"module": v, "kind": kind})
    # history
    ops = []
    loadable = list(layout)
    order = rng.sample(loadable, len(loadable))
    n_extra_ops = rng.choice([1, 2, 3, 4, 6, 8, 12])
    pending = list(order)
    for _ in range(n_extra_ops + len(order)):
        r = rng.random()
        if pending and r < 0.45:
            pkg = pending.pop(0)
            variant = rng.choice(["pkg", "pkg", "pkg", "dotted", "nosub"])
            op = {"op": "load", "pkg": pkg, "loader": rng.randrange(2)}
            if variant == "dotted" and layout.get(pkg):
                op["objspec"] = f"{pkg}.{rng.choice(layout[pkg])}"
            elif variant == "nosub":
                op["submodules"] = False
            ops.append(op)
        elif r < 0.49 and not pending:
            # a long-lived loader is asked for a package it already holds: fresh module objects replace the old ones
            ops.append({"op": "load", "pkg": rng.choice(order), "loader": rng.randrange(2)})
        elif r < 0.65:
            ops.append({"op": "resolve", "loader": rng.randrange(2), "implicit": rng.random() < 0.6, "external": rng.choice([True, False, None]), "max_iter": rng.choice([None, None, None, 1, 2])})
        elif r < (0.78 if cfg["links"] else 0.9):
            acc = rng.choice(ACCESSORS_NEVER_RAISE + ACCESSORS_ALIAS_ERRORS)
            ops.append({"op": "deref", "k": rng.randrange(64), "acc": acc})
        elif r < 0.92 and cfg["links"]:
            # what an extension or the inspector does: point an alias at an object (possibly another alias) directly
            ops.append({"op": "link", "k": rng.randrange(64), "to": rng.randrange(64)})
        elif r < 0.94:
            ops.append({"op": "expand_exports", "k": rng.randrange(8), "loader": rng.randrange(2)})
        elif r < 0.98:
            ops.append({"op": "expand_wildcards", "k": rng.randrange(8), "loader": rng.randrange(2), "external": rng.choice([True, False, None])})
        else:
            ops.append({"op": "load", "pkg": rng.choice(["nopkg", "ext", "p"]), "loader": rng.randrange(2)})
    if rng.random() < 0.5:
        ops.append({"op": "resolve", "loader": 0, "implicit": True, "external": rng.choice([True, False, None]), "max_iter": None})
    if pending_star_motif is not None:
        ops = [{"op": "load", "pkg": pending_star_motif, "loader": 0}, {"op": "resolve", "loader": 0, "implicit": True, "external": True, "max_iter": None}] + ops
    if ring_motif:
        for _ in range(6):
            ops.append({"op": "deref", "k": rng.randrange(64), "acc": "has_docstrings"})
    if rng.random() < 0.3:
        ops.append({"op": "json"})
    cwd_entries = []
    if rng.random() < 0.25:
        # the working directory of the process happens to hold files or directories named like packages of the graph
        # (every load here names its package, never a path: the working directory must not matter)
        for name in rng.sample(sorted({mp.split(".")[0] for mp in modules} | {"nopkg", "_q"}), rng.choice([1, 2, 3])):
            cwd_entries.append({"name": name, "kind": rng.choice(["file", "dir", "pkgdir"])})
    # environment fault: the working directory of the process no longer exists (a temporary build directory that was
    # removed, a checkout deleted under a long-running tool): everything that asks for it fails with FileNotFoundError
    cwd_deleted = not cwd_entries and rng.random() < 0.06
    return {"world": {"modules": modules, "stubs": stubs, "stubs_pkgs": stubs_pkgs}, "faults": faults, "ops": ops, "cfg": cfg, "cwd_entries": cwd_entries, "cwd_deleted": cwd_deleted}


# ------------------------------------------------------------------------------------------------
# World rendering


def render_world(world):
    files = {}
    mods = world["modules"]
    for mp, m in mods.items():
        parts = mp.split(".")
        rel = "/".join(parts) + ("/__init__.py" if m["init"] else ".py")
        files[rel] = "".join(_render_stmt(s) for s in m["stmts"]) or "\n"
    for pkg, kind in world.get("stubs", {}).items():
        if pkg in mods:
            files[f"{pkg}/__init__.pyi"] = "def f() -> int: ...\n" if kind == "ok" else "def f(:\n"
    sp1 = {}
    for pkg, smods in world.get("stubs_pkgs", {}).items():
        if pkg in mods:
            for name, stmts in smods.items():
                sp1[f"{pkg}-stubs/{name}.pyi"] = "".join(_render_stmt(s) for s in stmts) or "\n"
    return [files, sp1] if sp1 else [files]


def _mod_relpath(world, mp):
    m = world["modules"][mp]
    return "sp0/" + "/".join(mp.split(".")) + ("/__init__.py" if m["init"] else ".py")


# ------------------------------------------------------------------------------------------------
# Execution


class _Tracker:
    """Extension recording which aliases were created by wildcard expansion (public on_wildcard_expansion event)."""

    def __init__(self, griffe):
        self.born_from_wildcard = set()
        self.linked = set()
        self.born_dangling = set()
        self.reloaded = False
        tracker = self

        class Ext(griffe.Extension):
            def on_wildcard_expansion(self, *, alias, loader, **kwargs):
                tracker.born_from_wildcard.add(id(alias))
                t = alias._target
                if t is not None and t.is_alias and t._target is None:
                    tracker.born_dangling.add(id(alias))  # constructed "resolved" on top of an unresolved alias

        self.ext = Ext()


def _aliases(coll):
    """All aliases stored in the tree, in deterministic (insertion) order, by raw dicts only."""
    out = []
    seen = set()

    def rec(obj):
        if id(obj) in seen:
            return
        seen.add(id(obj))
        for m in obj.members.values():
            if m.is_alias:
                out.append(m)
            else:
                rec(m)

    for mod in coll.members.values():
        rec(mod)
    return out


def _modules(coll):
    out = []
    seen = set()

    def rec(obj):
        if id(obj) in seen:
            return
        seen.add(id(obj))
        out.append(obj)
        for m in obj.members.values():
            if not m.is_alias and m.is_module:
                rec(m)

    for mod in coll.members.values():
        rec(mod)
    return out


def _apath(a):
    parts = [a.name]
    p = a._parent
    depth = 0
    while p is not None and depth < 50:
        parts.append(p.name)
        p = p._parent if p.is_alias else p.parent
        depth += 1
    return ".".join(reversed(parts))


def _digest(coll):
    out = []
    for a in _aliases(coll):
        t = a._target
        out.append((_apath(a), a.target_path, None if t is None else (type(t).__name__, _apath(t) if t.is_alias else t.path)))
    mods = sorted(m.path for m in _modules(coll))
    members = [(m.path, tuple(m.members)) for m in _modules(coll)]
    return (tuple(out), tuple(mods), tuple(members))


def _access(g, a, acc):
    if acc == "parameters_or_bases":
        ft = a.final_target
        return getattr(ft, "parameters", None) or getattr(ft, "bases", None)
    if acc == "mro":
        return a.mro()
    if acc == "signature":
        return a.signature()
    if acc == "resolve_name":
        try:
            return a.resolve("f")
        except g.NameResolutionError:
            return None
    if acc == "getitem":
        return a["f"]
    if acc == "len":
        return len(a)
    if acc == "repr":
        return repr(a)
    if acc == "as_json":
        return a.as_json()
    if acc == "as_json_full":
        return a.as_json(full=True)
    return getattr(a, acc)


class _Budget:
    """Deterministic termination budget: counts Python function entries (sys.monitoring PY_START, the same thing the
    'call' event of sys.setprofile counts, at a fraction of its cost: no return / c_call / c_return events). Once the
    budget is spent *every* further function entry raises, so that no handler of the code under test can swallow it."""

    TOOL = 2  # sys.monitoring.PROFILER_ID

    def __init__(self, budget):
        self.budget = budget
        self.calls = 0

    def _on_start(self, code, offset):
        self.calls += 1
        if self.calls > self.budget:
            raise _Timeout()

    def __enter__(self):
        mon = sys.monitoring
        if mon.get_tool(self.TOOL) is None:
            mon.use_tool_id(self.TOOL, "simgriffe-budget")
        mon.register_callback(self.TOOL, mon.events.PY_START, self._on_start)
        mon.set_events(self.TOOL, mon.events.PY_START)
        return self

    def __exit__(self, *exc):
        mon = sys.monitoring
        mon.set_events(self.TOOL, 0)
        mon.register_callback(self.TOOL, mon.events.PY_START, None)
        return False


def _run_op(fn, budget_mode):
    """Run one operation under a CPU-time alarm (fast path) or under a deterministic Python-call budget."""
    if budget_mode:
        mon = sys.monitoring
        b = _Budget(CALL_BUDGET)
        b.__enter__()
        try:
            return fn()
        finally:
            mon.set_events(_Budget.TOOL, 0)  # C calls only: no Python function is entered while the budget is armed
            mon.register_callback(_Budget.TOOL, mon.events.PY_START, None)
    signal.setitimer(signal.ITIMER_VIRTUAL, OP_CPU_SECONDS)
    try:
        return fn()
    finally:
        signal.setitimer(signal.ITIMER_VIRTUAL, 0)


def _on_alarm(signum, frame):
    raise _Timeout()


def execute(plan, ctx):
    old = signal.signal(signal.SIGVTALRM, _on_alarm)
    try:
        inner = core.Ctx(keep_log=ctx.events is not None)
        try:
            _execute(plan, inner, budget_mode=False)
        except _Timeout:
            # a CPU alarm is load dependent: decide termination deterministically with a call budget
            global CALL_BUDGET
            inner = core.Ctx(keep_log=ctx.events is not None)
            inner.probe("cpu-alarm-rerun-under-call-budget")
            _execute(plan, inner, budget_mode=True)
            if any(f["inv"] == "I2-termination" for f in inner.failures):
                # some finite computations are combinatorial (paths through rings of module aliases, walked through
                # member views): confirm with sixteen times the budget before calling it non-termination
                saved = CALL_BUDGET
                CALL_BUDGET = saved * 16
                try:
                    confirm = core.Ctx(keep_log=ctx.events is not None)
                    confirm.probe("cpu-alarm-rerun-under-call-budget")
                    confirm.probe("termination-confirmed-with-16x-budget")
                    _execute(plan, confirm, budget_mode=True)
                finally:
                    CALL_BUDGET = saved
                inner = confirm
        ctx.__dict__.update(inner.__dict__)
    finally:
        signal.setitimer(signal.ITIMER_VIRTUAL, 0)
        signal.signal(signal.SIGVTALRM, old)


def _execute(plan, ctx, budget_mode):
    import griffe

    world = plan["world"]
    tracker = _Tracker(griffe)
    files = render_world(world)
    read_faults = [{"file": _mod_relpath(world, f["module"]), "kind": f["kind"], "nth": -1} for f in plan["faults"] if f["kind"] != "syntax" and f["module"] in world["modules"]]
    faulty_pkgs = {f["module"].split(".")[0] for f in plan["faults"]} | {p for p, k in world.get("stubs", {}).items() if k == "broken"}
    all_pkgs = {mp.split(".")[0] for mp in world["modules"]}
    with World(files, tag="c06-") as w:
        seam = ReadSeam(w.root, read_faults, ctx)
        coll = griffe.ModulesCollection()
        lines = griffe.LinesCollection()
        loaders = [
            griffe.GriffeLoader(search_paths=w.sp_dirs, modules_collection=coll, lines_collection=lines, allow_inspection=False, extensions=griffe.load_extensions(tracker.ext))
            for _ in range(2)
        ]
        trace = []
        old_cwd = os.getcwd()
        if plan.get("cwd_entries"):
            cwd = os.path.join(w.root, "cwd")
            os.makedirs(cwd, exist_ok=True)
            for e in plan["cwd_entries"]:
                path = os.path.join(cwd, e["name"])
                if e["kind"] == "file":
                    with open(path, "w") as fh:
                        fh.write("not a package\n")
                else:
                    os.makedirs(path, exist_ok=True)
                    if e["kind"] == "pkgdir":
                        with open(os.path.join(path, "__init__.py"), "w") as fh:
                            fh.write("shadow = 1\n")
            os.chdir(cwd)
            ctx.fault("working-directory-holds-namesakes")
        if plan.get("cwd_deleted"):
            gone = os.path.join(w.root, "gone")
            os.makedirs(gone, exist_ok=True)
            os.chdir(gone)
            os.rmdir(gone)
            ctx.fault("working-directory-deleted")
        try:
            with seam.installed():
                for oi, op in enumerate(plan["ops"]):
                    ctx.steps += 1
                    kind = op["op"]
                    ok = _step(ctx, griffe, w, coll, loaders, tracker, op, budget_mode, faulty_pkgs, all_pkgs, trace, world)
                    if not ok or ctx.failures:
                        break
                    if not _check_structure(ctx, griffe, coll, tracker, all_pkgs, budget_mode):
                        break
        finally:
            os.chdir(old_cwd)
        ctx.log("end", core.hash_key(_digest(coll)))
        n_alias = len(_aliases(coll))
        ctx.probe("aliases-in-tree", n_alias)
        ctx.nontrivial = n_alias > 0 and len(trace) >= 2
        ctx.cover.append((tuple(trace), core.hash_key(_digest(coll))))


def _step(ctx, g, w, coll, loaders, tracker, op, budget_mode, faulty_pkgs, all_pkgs, trace, world=None):
    world = world or {}
    kind = op["op"]
    alias_errors = (g.AliasResolutionError, g.CyclicAliasError)
    try:
        if kind == "load":
            loader = loaders[op["loader"]]
            exists = op["pkg"] in all_pkgs
            if op["pkg"] in coll.members:
                tracker.reloaded = True  # fresh module objects replace the old ones: earlier bindings go stale by design
            try:
                fsp = op["pkg"] in world.get("stubs_pkgs", {})
                _run_op(lambda: loader.load(op.get("objspec", op["pkg"]), try_relative_path=False, submodules=op.get("submodules", True), find_stubs_package=fsp), budget_mode)
                ctx.log("load", (op["pkg"], op["loader"], "ok"))
                trace.append("load")
            except (KeyError, g.AliasResolutionError, g.CyclicAliasError) as e:
                # only the final lookup of a dotted object path may fail like this: the object does not exist, or
                # the path goes through an alias that reports an alias error when dereferenced
                if "objspec" not in op or "_post_load" not in core.griffe_frames(e, limit=400) or "expand_" in " ".join(core.griffe_frames(e, limit=400)):
                    ctx.fail("I1-load-raised", f"load({op.get('objspec', op['pkg'])}) raised {type(e).__name__}: {w.norm(str(e))[:200]}", exc=e, tags=_exc_tags(e, tracker))
                    return False
                ctx.log("load", (op["objspec"], op["loader"], type(e).__name__))
                trace.append("load-missing-object")
            except (g.LoadingError, ImportError) as e:
                ctx.log("load", (op["pkg"], op["loader"], type(e).__name__))
                trace.append("load-failed")
                if exists and not faulty_pkgs:
                    ctx.fail("I1-load-raised", f"load({op['pkg']}) raised {type(e).__name__}: {w.norm(str(e))[:200]} although the package exists and no fault was injected", exc=e)
                    return False
                if not exists:
                    ctx.fault("load-missing-package")
            except Exception as e:  # noqa: BLE001
                ctx.fail("I1-load-raised", f"load({op['pkg']}) raised {type(e).__name__}: {w.norm(str(e))[:200]}", exc=e, tags=_exc_tags(e, tracker))
                return False
        elif kind == "resolve":
            loader = loaders[op["loader"]]
            kw = {"implicit": op["implicit"], "external": op["external"], "max_iterations": op["max_iter"]}
            try:
                unresolved, iters = _run_op(lambda: loader.resolve_aliases(**kw), budget_mode)
            except Exception as e:  # noqa: BLE001
                ctx.fail("I1-resolve-raised", f"resolve_aliases({kw}) raised {type(e).__name__}: {w.norm(str(e))[:200]}", exc=e, tags=_exc_tags(e, tracker))
                return False
            ctx.log("resolve", (op["implicit"], op["external"], op["max_iter"], len(unresolved), iters))
            trace.append(f"resolve-{op['external']}")
            if op["max_iter"] is None:
                # I4 fix-point: a second identical call changes nothing
                before = _digest(coll)
                try:
                    unresolved2, iters2 = _run_op(lambda: loader.resolve_aliases(**kw), budget_mode)
                except Exception as e:  # noqa: BLE001
                    ctx.fail("I1-resolve-raised", f"second resolve_aliases({kw}) raised {type(e).__name__}: {w.norm(str(e))[:200]}", exc=e, tags=_exc_tags(e, tracker))
                    return False
                after = _digest(coll)
                if unresolved2 != unresolved and after == before:
                    ctx.fail("I4-fixpoint", f"resolve_aliases({kw}) again: unresolved set changed: {sorted(unresolved ^ unresolved2)[:5]}")
                    return False
                if after != before:
                    # a wildcard placeholder that only the second call could expand (its module path goes through an
                    # alias that the first call resolved after its last expansion pass) is a recorded finding
                    pending_before = {a[0] for a in before[0] if a[0].endswith("/*")}
                    pending_after = {a[0] for a in after[0] if a[0].endswith("/*")}
                    tags = ["pending-wildcard-expanded-by-second-call"] if pending_before - pending_after and before[1] == after[1] else []
                    ctx.fail("I4-fixpoint", f"resolve_aliases({kw}) again changed the tree: {_digest_diff(before, after)}", tags=tags)
                    return False
        elif kind == "deref":
            aliases = _aliases(coll)
            if not aliases:
                return True
            a = aliases[op["k"] % len(aliases)]
            acc = op["acc"]
            was = a._target is not None
            apath = _apath(a)
            try:
                _run_op(lambda: _access(g, a, acc), budget_mode)
                outcome = "ok"
            except alias_errors as e:
                outcome = type(e).__name__
                if acc in ACCESSORS_NEVER_RAISE:
                    ctx.fail("I1-accessor-raised", f"{apath}.{acc} raised {outcome}", exc=e, tags=_alias_tags(a, tracker))
                    return False
                if not was and a._target is not None and acc in ("target", "final_target"):
                    # failed dereference must leave the alias unresolved - unless it is the *final* target that fails
                    pass
            except Exception as e:  # noqa: BLE001
                if isinstance(e, ACCESSOR_EXTRA_ERRORS.get(acc, ())) or (isinstance(e, g.BuiltinModuleError) and acc in ACCESSOR_EXTRA_ERRORS):
                    outcome = type(e).__name__  # documented for this accessor, unrelated to alias resolution
                else:
                    ctx.fail("I1-accessor-raised", f"{apath}.{acc} raised {type(e).__name__}: {w.norm(str(e))[:160]}", exc=e, tags=_alias_tags(a, tracker))
                    return False
            ctx.log("deref", (apath, acc, was, outcome, a._target is not None))
            trace.append(f"deref-{outcome}")
            if outcome != "ok":
                ctx.fault("deref-" + outcome)
        elif kind == "link":
            aliases = _aliases(coll)
            if len(aliases) < 2:
                return True
            a = aliases[op["k"] % len(aliases)]
            b = aliases[op["to"] % len(aliases)]
            def _link():
                a.target = b

            try:
                _run_op(_link, budget_mode)
                outcome = "ok"
            except alias_errors as e:
                outcome = type(e).__name__
            except Exception as e:  # noqa: BLE001
                ctx.fail("I1-accessor-raised", f"{_apath(a)}.target = <alias {_apath(b)}> raised {type(e).__name__}: {w.norm(str(e))[:160]}", exc=e)
                return False
            tracker.linked.add(id(a))
            ctx.log("link", (_apath(a), _apath(b), outcome))
            trace.append("link")
            ctx.fault("direct-retarget")
        elif kind in ("expand_exports", "expand_wildcards"):
            mods = _modules(coll)
            if not mods:
                return True
            mod = mods[op["k"] % len(mods)]
            loader = loaders[op["loader"]]
            try:
                if kind == "expand_exports":
                    _run_op(lambda: loader.expand_exports(mod), budget_mode)
                else:
                    _run_op(lambda: loader.expand_wildcards(mod, external=op["external"]), budget_mode)
            except Exception as e:  # noqa: BLE001
                ctx.fail("I1-expand-raised", f"{kind}({mod.path}) raised {type(e).__name__}: {w.norm(str(e))[:200]}", exc=e, tags=_exc_tags(e, tracker))
                return False
            ctx.log(kind, mod.path)
            trace.append(kind)
        elif kind == "json":
            for mod in list(coll.members.values()):
                try:
                    _run_op(lambda: mod.as_json(full=True), budget_mode)
                except alias_errors:
                    pass
                except ValueError as e:
                    if "relative_package_filepath" not in core.griffe_frames(e, limit=20) and "relative_filepath" not in core.griffe_frames(e, limit=20):
                        ctx.fail("I1-json-raised", f"{mod.path}.as_json(full=True) raised ValueError: {w.norm(str(e))[:200]}", exc=e)
                        return False
                    ctx.probe("full-json-valueerror-relative-filepath(C08 matter)")
                except Exception as e:  # noqa: BLE001
                    ctx.fail("I1-json-raised", f"{mod.path}.as_json(full=True) raised {type(e).__name__}: {w.norm(str(e))[:200]}", exc=e)
                    return False
            ctx.log("json", len(coll.members))
            trace.append("json")
    except _Timeout:
        if not budget_mode:
            raise
        ctx.fail("I2-termination", f"{op} exceeded the budget of {CALL_BUDGET} Python calls")
        return False
    return True


def _exc_tags(e, tracker):
    names = core.griffe_frames(e, limit=12)
    tags = []
    if "expand_wildcards" in names or "_expand_wildcard" in names:
        tags.append("during-wildcard-expansion")
    return tags


def _alias_tags(a, tracker):
    tags = []
    if id(a) in tracker.born_from_wildcard:
        tags.append("alias-born-from-wildcard")
    return tags


def _raw_lookup(coll, dotted):
    """Object stored at a dotted path, by raw dicts; a resolved alias on the way is followed, anything else -> None."""
    obj = coll
    parts = dotted.split(".")
    for i, part in enumerate(parts):
        members = obj.members if not getattr(obj, "is_alias", False) else None
        if members is None or part not in members:
            return None
        obj = members[part]
        if i < len(parts) - 1:
            hops = 0
            while obj.is_alias:
                if obj._target is None or hops > 20:
                    return None
                obj = obj._target
                hops += 1
    return obj


def _check_structure(ctx, g, coll, tracker, all_pkgs, budget_mode=False):
    """I3 + I5 by raw pointers only (no properties that could resolve anything)."""
    for a in _aliases(coll):
        if a._passed_through:
            ctx.fail("I3-marker", f"alias {_apath(a)} still carries the in-progress marker after the operation returned")
            return False
        if a._target is None:
            continue
        # resolved: the chain must consist of resolved links down to a real object, or be a cycle that is reported
        seen = []
        t = a
        partial = False
        cyclic = False
        born = id(a) in tracker.born_from_wildcard
        view = False
        linked = False
        prev = None
        while t.is_alias:
            linked = linked or id(t) in tracker.linked
            if t._parent is not None and t._parent.is_alias:
                view = True  # a transient alias produced by Alias.members (member of an alias to a module/class)
            if any(t is s for s in seen):
                cyclic = True
                break
            seen.append(t)
            born = born or id(t) in tracker.born_from_wildcard
            if t._target is None:
                partial = True
                break
            prev = t
            t = t._target
        if partial and linked:
            ctx.probe("partial-chain-made-by-direct-retarget")  # the caller pointed an alias at an unresolved alias
            continue
        if partial:
            ctx.fail("I3-partial-chain", f"alias {_apath(a)} is marked resolved but its chain stops at the unresolved link {_apath(t)} -> {t.target_path}", tags=(["wildcard-born-alias-constructed-on-unresolved-alias"] if prev is not None and id(prev) in tracker.born_dangling else (["chain-through-alias-member-view"] if view else ["retargeted-onto-unresolved-alias"])))
            return False
        if cyclic:
            ctx.probe("resolved-cycle")
            try:
                _run_op(lambda a=a: a.final_target, budget_mode)
            except g.CyclicAliasError:
                pass
            except _Timeout:
                if not budget_mode:
                    raise
                ctx.fail("I2-termination", f"final_target of the resolved cyclic chain at {_apath(a)} exceeded the budget of {CALL_BUDGET} Python calls")
                return False
            except Exception as e:  # noqa: BLE001
                ctx.fail("I3-cycle", f"resolved cyclic chain at {_apath(a)}: final_target raised {type(e).__name__}", exc=e)
                return False
            else:
                ctx.fail("I3-cycle", f"resolved cyclic chain at {_apath(a)}: final_target returned instead of raising CyclicAliasError")
                return False
            continue
        # I5: a resolved link points at the object that sits at its target path (raw walk, resolved links followed)
        if not tracker.reloaded and id(a) not in tracker.linked:
            want = _raw_lookup(coll, a.target_path)
            if want is not None and a._target is not want and not (want.is_alias and want._target is a._target):
                got = a._target
                if not (got.is_alias and got._parent is not None and got._parent.is_alias):  # transient view objects differ by identity
                    # Observation only.  A link bound before a member on its path was replaced (a wildcard-imported
                    # name taking the place of a submodule, a stubs merge) keeps the object it was bound to: the
                    # property asks for "resolved down to a real object", not for "the object now at that path",
                    # so this is counted, never reported (it was a false alarm when it was an invariant).
                    ctx.probe("resolved-link-bound-to-displaced-object")
        # I5: what exists nowhere is never resolved
        top = a.target_path.split(".", 1)[0]
        if top not in all_pkgs and top not in coll.members:
            ctx.fail("I5-phantom", f"alias {_apath(a)} -> {a.target_path} is resolved although no package {top!r} exists anywhere")
            return False
    return True


def _digest_diff(a, b):
    for x, y in zip(a[0], b[0]):
        if x != y:
            return f"{x} -> {y}"
    if a[1] != b[1]:
        return f"modules {sorted(set(b[1]) - set(a[1]))} added"
    if len(a[0]) != len(b[0]):
        return f"{len(a[0])} -> {len(b[0])} aliases"
    return "members changed"


# ------------------------------------------------------------------------------------------------
# Shrinking


def shrink_candidates(plan):
    ops = plan["ops"]
    for red in core.list_reductions(ops):
        yield {**plan, "ops": red}
    if plan["faults"]:
        for red in core.list_reductions(plan["faults"]):
            mods = copy.deepcopy(plan["world"]["modules"])
            kept = {f["module"] for f in red if f["kind"] == "syntax"}
            for mp, m in mods.items():
                if mp not in kept:
                    m["stmts"] = [s for s in m["stmts"] if s["s"] != "syntax_error"]
            yield {**plan, "faults": red, "world": {**plan["world"], "modules": mods}}
    mods = plan["world"]["modules"]
    for mp in list(mods):
        if any(o.startswith(mp + ".") for o in mods):
            continue
        if "." not in mp and any(op.get("pkg") == mp for op in ops):
            continue
        yield {**plan, "world": {**plan["world"], "modules": {k: v for k, v in mods.items() if k != mp}}}
    for mp, m in mods.items():
        for red in core.list_reductions(m["stmts"]):
            yield {**plan, "world": {**plan["world"], "modules": {**mods, mp: {**m, "stmts": red}}}}
        for i, st in enumerate(m["stmts"]):
            if st["s"] == "class" and st["body"]:
                for red in core.list_reductions(st["body"]):
                    new = {**st, "body": red}
                    yield {**plan, "world": {**plan["world"], "modules": {**mods, mp: {**m, "stmts": m["stmts"][:i] + [new] + m["stmts"][i + 1 :]}}}}
            if st["s"] in ("from", "import") and st.get("as"):
                new = {**st, "as": None}
                yield {**plan, "world": {**plan["world"], "modules": {**mods, mp: {**m, "stmts": m["stmts"][:i] + [new] + m["stmts"][i + 1 :]}}}}
    for i, op in enumerate(ops):
        if op["op"] == "resolve" and (op["max_iter"] is not None):
            yield {**plan, "ops": ops[:i] + [{**op, "max_iter": None}] + ops[i + 1 :]}
        if op.get("loader") == 1:
            yield {**plan, "ops": ops[:i] + [{**op, "loader": 0}] + ops[i + 1 :]}


def sample_view(plan):
    files = render_world(plan["world"])[0]
    return {"seed": plan["seed"], "files": {k: v[:300] for k, v in list(files.items())[:6]}, "faults": plan["faults"], "ops": plan["ops"][:10], "n_ops": len(plan["ops"])}


class _Prop:
    ID = "C06"
    TIERS = {
        "quick": {"runs": 50_000, "wall": 80, "det_n": 150, "shrink_s": 40},
        "thorough": {"runs": 500_000, "wall": 1100, "det_n": 1000, "shrink_s": 120},
    }
    OPTS = {"chunk": 100, "chunk_wall": 1500, "catch_kbi": True}
    REPLAY_IN_PARENT = True
    RULE = (
        "one run = one generated world of 1-3 packages (+ private sibling _p, unloaded ext, names that exist nowhere) "
        "whose modules hold 0-5 statements drawn from defs, classes with class-level imports, from/import/relative/"
        "wildcard imports with freely chosen targets (self, cycles, dangling), __all__ in four spellings; and one "
        "history of 2-15 operations: loads in any order through two loaders sharing a collection, resolve_aliases "
        "(implicit x external in {True, False, None} x max_iterations), lazy dereference of the k-th alias through "
        "20 accessors, direct expand_exports/expand_wildcards, full JSON; optional syntax/read faults in lazily "
        "loaded packages. Invariants I1-I5 after every operation. Non-trivial = the tree holds at least one alias "
        "and two operations ran; distinct = distinct (operation/outcome trace, end-state digest). Also drawn: class bases through aliases, guarded (TYPE_CHECKING / try / if) imports, module docstrings, __all__ splices through aliases of modules (planted alias rings), direct alias.target = other links, dotted-object and submodules=False loads, reloads of packages already held, external packages with valid or broken top-level stubs, a <pkg>-stubs package in a second search path loaded with find_stubs_package=True. Round r/s: decorators bound to imported names, a deleted working directory, planted motifs for mutual public re-exports and for a wildcard enabled by another wildcard of an on-demand package. Round j/k: planted wildcard motifs (star from a self-cyclic name, star of a module that stars itself, star through an alias of a module, star importing the name of the sub-module it comes from), @dataclass classes (three spellings) with annotated fields and class-level imports, bases written as attribute accesses."
    )
    COMPONENTS = {
        "real": ["_griffe.loader (load, resolve_aliases, expand_exports, expand_wildcards)", "_griffe.models.Alias", "_griffe.mixins", "_griffe.agents.visitor", "_griffe.finder", "real files on tmpfs"],
        "stubbed": [],
        "seams": ["pathlib.Path.read_text (ReadSeam: OSError / undecodable / truncated)", "SIGVTALRM CPU alarm + sys.setprofile call budget (termination)", "on_wildcard_expansion recording extension"],
    }
    ASSUMPTIONS = [
        "termination is decided by a budget of 50,000,000 Python calls per operation (the heaviest passing operation seen needed 8.7 million: deep but finite path computations through self-importing packages); a 20 s CPU alarm only selects which runs are repeated under the budget",
        "inspection disallowed: the import graph is purely static",
        "sampling, not enumeration",
    ]

    generate = staticmethod(generate)
    execute = staticmethod(execute)
    shrink_candidates = staticmethod(shrink_candidates)
    sample_view = staticmethod(sample_view)


PROP = _Prop()
