"""C16 - Object-tree invariants hold after any history of member mutations.

A seeded history of insertions / replacements / deletions / alias operations is applied in lock-step to the real
Griffe object tree (models.py, mixins.py, collections.py) and to a small reference model; invariants are
evaluated after every step.  "Faults" are the API's own rejections (missing key, empty key, self-targeting
alias): a rejected operation must leave tree and model unchanged.
"""

from __future__ import annotations

import copy
from pathlib import Path

from simgriffe import core

NAMES = ["a", "b", "c"]
TOPS = ["m1", "m2"]
KINDS = ["module", "class", "function", "attribute"]
KEY_FORMS = ["name", "dotted", "tuple", "chain", "rel_dotted", "rel_tuple"]


# ------------------------------------------------------------------------------------------------
# Reference model


class Node:
    __slots__ = ("kind", "uid", "name", "children", "tstr", "tobj", "parent", "pyi", "top_in", "ns")

    def __init__(self, kind, uid, name):
        self.kind = kind
        self.uid = uid
        self.name = name
        self.children: dict[str, Node] = {}
        self.tstr = None  # alias: target path given as string
        self.tobj = None  # alias: uid of object target (as constructed / last retargeted), None if unresolved
        self.parent = None
        self.pyi = False  # module loaded from a stubs file
        self.ns = False  # module with a list of directories as file path (namespace package)
        self.top_in = set()  # uids of the collections in which this node has been a top-level module


ROOT2_UID = 10**9


class Model:
    """Nested dicts name -> node.  The root stands for the modules collection."""

    def __init__(self):
        self.root = Node("collection", 0, "")
        self.root2 = Node("collection", ROOT2_UID, "")  # a second modules collection (modules can be moved over)
        self.detached: list[Node] = []
        self.next_uid = 1

    def lookup(self, path):
        """Return (node, None) or (None, reason) where reason in {'missing', 'alias'}."""
        node = self.root
        for part in path:
            if node.kind == "alias":
                return None, "alias"
            if part not in node.children:
                return None, "missing"
            node = node.children[part]
        return node, None

    def path_of(self, node):
        parts = []
        while node is not None and node.kind != "collection":
            parts.append(node.name)
            node = node.parent
        return list(reversed(parts))

    def attached(self, node):
        while node.parent is not None:
            if node.parent.children.get(node.name) is not node:
                return False
            node = node.parent
        return node is self.root or node is self.root2

    def walk(self, node=None, path=()):
        node = node or self.root
        for name, child in node.children.items():
            p = (*path, name)
            yield p, child
            if child.kind != "alias":
                yield from self.walk(child, p)


# ------------------------------------------------------------------------------------------------
# Generation (pure function of the seed; it steps its own copy of the model to pick mostly-valid operations)


def _gen_path(rng, model, want_existing=True, non_alias=False, depth_bias=0.5):
    nodes = [(p, n) for p, n in model.walk() if not (non_alias and n.kind == "alias")]
    if want_existing and nodes and rng.random() < 0.85:
        return list(rng.choice(nodes)[0])
    # random, possibly dangling path
    n = rng.choice([1, 1, 2, 2, 3])
    return [rng.choice(TOPS)] + [rng.choice(NAMES) for _ in range(n - 1)]


def _gen_container(rng, model):
    nodes = [((), model.root)] + [(p, n) for p, n in model.walk() if n.kind != "alias"]
    if rng.random() < 0.9:
        weights = [3 if n.kind in ("module", "class", "collection") else 1 for _, n in nodes]
        return list(rng.choices(nodes, weights)[0][0])
    return _gen_path(rng, model, want_existing=False)


def _gen_value(rng, model, container_path, swarm):
    at_root = len(container_path) == 0
    r = rng.random()
    if r < swarm["p_detached"] and model.detached:
        return {"detached": rng.randrange(8)}
    if at_root:
        name = rng.choice(TOPS + ["a"])
        if swarm.get("stub_modules") and rng.random() < 0.4:
            return {"new": "module", "name": name, "pyi": rng.random() < 0.6, "filled": True}
        if swarm.get("stub_modules") and rng.random() < 0.3:
            return {"new": "module", "name": name, "ns": True}
        return {"new": "module", "name": name}
    name = rng.choice(NAMES)
    if r < swarm["p_detached"] + swarm["p_alias"]:
        if rng.random() < 0.5:
            tgt = _gen_path(rng, model)
            if rng.random() < 0.15:
                tgt = container_path + [name]  # alias whose target path is its own path
            return {"new": "alias", "name": name, "tstr": ".".join(tgt)}
        spec = {"new": "alias", "name": name, "tobj": _gen_path(rng, model, non_alias=rng.random() < 0.8)}
        if rng.random() < 0.12:
            spec["inherited"] = True
        return spec
    kind = rng.choice(KINDS[1:] if rng.random() < 0.8 else KINDS)
    spec = {"new": kind, "name": name}
    if swarm.get("stub_modules") and rng.random() < 0.15:
        return {"new": "module", "name": name, "ns": True}  # a namespace (sub-)package: its file path is a list of directories
    if swarm.get("stub_modules") and rng.random() < 0.35:
        # a module read from a .pyi file, with a few members: set_member merges it with a regular module of that name
        return {"new": "module", "name": name, "pyi": True, "filled": True}
    if kind == "module" and swarm.get("stub_modules") and rng.random() < 0.5:
        spec["filled"] = True  # a regular module that already has members
    if kind == "class" and swarm.get("inheritance") and rng.random() < 0.6:
        classes = [list(p) for p, n in model.walk() if n.kind == "class" and list(p) != container_path + [name]]
        if classes:
            spec["bases"] = [".".join(rng.choice(classes))]
    return spec


def _alphabet():
    """Fixed operation alphabet for the systematic part: every history of up to 3 of these after the two module
    insertions is executed exactly once per batch (the run index below 92 + 92^2 + 92^3 is decoded as a sequence)."""
    ops = []
    for on in (["m1"], ["m2"], ["m1", "a"]):
        for name in ("a", "b"):
            for api in ("set_member", "setitem"):
                for kind in ("module", "class", "function", "attribute"):
                    ops.append({"op": "set", "api": api, "form": "dotted", "on": on, "value": {"new": kind, "name": name}})
                ops.append({"op": "set", "api": api, "form": "tuple", "on": on, "value": {"new": "alias", "name": name, "tstr": "m1.a"}})
                ops.append({"op": "set", "api": api, "form": "name", "on": on, "value": {"new": "alias", "name": name, "tobj": ["m1", "a"]}})
    for path in (["m1", "a"], ["m1", "a", "b"], ["m2", "a"], ["m1", "b"]):
        for api in ("del_member", "delitem"):
            ops.append({"op": "del", "api": api, "form": "dotted", "path": path})
    for alias in (["m1", "a"], ["m2", "b"]):
        for how in ("target", "final_target", "resolve_target"):
            ops.append({"op": "resolve", "alias": alias, "how": how})
        for to in ("self", "samepath", ["m1", "a"]):
            ops.append({"op": "retarget", "alias": alias, "to": to})
    return ops


_ALPHABET = _alphabet()
_N = len(_ALPHABET)
ENUM_COUNT = _N + _N**2 + _N**3


def _enumerated(idx):
    for length in (1, 2, 3):
        if idx < _N**length:
            seq = []
            for _ in range(length):
                seq.append(copy.deepcopy(_ALPHABET[idx % _N]))
                idx //= _N
            return seq
        idx -= _N**length
    return None


def generate(rng, opts):
    raw = opts.get("_seed", 1 << 40) & ((1 << 24) - 1)  # run index inside the batch (batches are 2^20 apart; overlap is harmless)
    idx = raw // 4
    if raw % 4 == 0 and idx < ENUM_COUNT and not opts.get("random_only"):
        ops = [{"op": "set", "api": "set_member", "form": "name", "on": [], "value": {"new": "module", "name": top}} for top in TOPS]
        return {"ops": ops + _enumerated(idx), "swarm": {"systematic": True, "preparent": bool(idx & 1) and False}}
    swarm = {
        "n_ops": rng.choice([1, 2, 3, 3, 4, 5, 6, 8, 10, 14, 20, 30, 40]),
        "p_detached": rng.choice([0.0, 0.1, 0.3]),
        "p_alias": rng.choice([0.0, 0.2, 0.4, 0.6]),
        "w": {
            "set": rng.choice([2, 4, 6]),
            "del": rng.choice([0, 1, 2]),
            "resolve": rng.choice([0, 1, 2]),
            "retarget": rng.choice([0, 0, 1, 2]),
            "bad": rng.choice([0, 0, 1]),
        },
        "producer_only": rng.random() < 0.3,
        "preparent": rng.random() < 0.5,
        "inheritance": rng.random() < 0.4,
        "stub_modules": rng.random() < 0.3,
        "two_collections": rng.random() < 0.25,
        "long_chain": rng.random() < 0.04,
    }
    if opts.get("no_moves"):
        swarm["p_detached"] = 0.0
    model = Model()
    ex = Executor(None, model_only=True)
    ops = []
    # Initial modules are inserted by ops too, so that shrinking can remove them.
    for top in TOPS:
        ops.append({"op": "set", "api": "set_member", "form": "name", "on": [], "value": {"new": "module", "name": top}})
    if rng.random() < 0.03 and not opts.get("no_moves"):
        # planted motif (random histories reach it about once in six million runs): a detached stubs module is put in
        # the place of another stubs module whose subtree holds the module that used to be its parent
        swarm["stub_modules"] = True
        swarm["motif"] = "stale-parent-into-stub-merge"
        top1, top2 = rng.sample(TOPS, 2)
        nm = rng.choice(NAMES)
        api_set = rng.choice(["set_member", "set_member", "setitem"])
        motif = [
            {"op": "set", "api": "set_member", "form": "name", "on": [top1], "value": {"new": "module", "name": nm, "pyi": True, "filled": True}},
            {"op": "set", "api": "set_member", "form": "name", "on": [top2], "value": {"new": "module", "name": nm, "pyi": rng.random() < 0.8, "filled": True}},
            # (a member of another kind on each side, met by the merge after the old parent has been moved)
            {"op": "set", "api": "set_member", "form": "name", "on": [top1, nm, "b"], "value": {"new": "function", "name": "a"}},
            {"op": "del", "api": rng.choice(["del_member", "delitem"]), "form": "name", "path": [top1]},
            {"op": "set", "api": api_set, "form": rng.choice(KEY_FORMS), "on": [top2, nm, "b"], "value": {"detached": 0}},
            {"op": "set", "api": "set_member", "form": "name", "on": [top2, nm, "b"], "value": {"new": "module", "name": "a"}},
            {"op": "del", "api": rng.choice(["del_member", "delitem"]), "form": rng.choice(KEY_FORMS), "path": [top2, nm, "b", top1, nm]},
            {"op": "set", "api": "set_member", "form": rng.choice(KEY_FORMS), "on": [top2], "value": {"detached": 0}},
        ]
        for op in motif:
            ops.append(op)
            ex.step(op, None)
    if rng.random() < 0.03 and "motif" not in swarm:
        # planted motif: a class declares an alias under the name of a member it would otherwise inherit, and the alias
        # leads to that very member (`meth = Base.meth`); the consumer API computes inherited members on every lookup
        swarm["inheritance"] = True
        swarm["motif"] = "declared-alias-shadows-inherited-member"
        top = rng.choice(TOPS)
        base, child, nm = rng.sample(NAMES, 3)
        how = rng.choice(["tstr", "tobj"])
        motif = [
            {"op": "set", "api": "set_member", "form": "name", "on": [top], "value": {"new": "class", "name": base}},
            {"op": "set", "api": "set_member", "form": "name", "on": [top, base], "value": {"new": rng.choice(["function", "attribute"]), "name": nm}},
            {"op": "set", "api": "set_member", "form": "name", "on": [top], "value": {"new": "class", "name": child, "bases": [f"{top}.{base}"]}},
            {"op": "set", "api": rng.choice(["set_member", "setitem"]), "form": rng.choice(KEY_FORMS), "on": [top, child], "value": {"new": "alias", "name": nm, **({"tstr": f"{top}.{base}.{nm}"} if how == "tstr" else {"tobj": [top, base, nm]})}},
            {"op": "resolve", "alias": [top, child, nm], "how": rng.choice(["target", "final_target", "resolve_target"])},
        ]
        for op in motif:
            ops.append(op)
            ex.step(op, None)
    kinds = [k for k, w in swarm["w"].items() for _ in range(w)] + (["transfer"] * 2 if swarm["two_collections"] else [])
    for _ in range(swarm["n_ops"]):
        k = rng.choice(kinds)
        api_set = "set_member" if swarm["producer_only"] or rng.random() < 0.6 else "setitem"
        api_del = "del_member" if swarm["producer_only"] or rng.random() < 0.6 else "delitem"
        if k == "set":
            on = _gen_container(rng, ex.model)
            op = {"op": "set", "api": api_set, "form": rng.choice(KEY_FORMS), "on": on, "value": _gen_value(rng, ex.model, on, swarm)}
        elif k == "del":
            op = {"op": "del", "api": api_del, "form": rng.choice(KEY_FORMS), "path": _gen_path(rng, ex.model)}
        elif k == "transfer":
            back = list(ex.model.root2.children)
            if back and rng.random() < 0.4:
                op = {"op": "transfer", "name": rng.choice(back), "dir": "back", "api": rng.choice(["set_member", "setitem"])}
            else:
                op = {"op": "transfer", "name": rng.choice(TOPS + ["a"]), "dir": "out", "api": rng.choice(["set_member", "setitem"])}
        elif k == "resolve":
            op = {"op": "resolve", "alias": _pick_alias(rng, ex.model), "how": rng.choice(["target", "final_target", "resolve_target"])}
        elif k == "retarget":
            to = rng.choice(["self", "samepath", "path", "path", "path"])
            op = {"op": "retarget", "alias": _pick_alias(rng, ex.model), "to": to if to != "path" else _gen_path(rng, ex.model)}
        else:
            op = {"op": "bad", "what": rng.choice(["empty_str", "empty_tuple"]), "api": rng.choice(["get", "set", "del"]), "on": _gen_container(rng, ex.model)}
        ops.append(op)
        ex.step(op, None)
        if swarm["long_chain"] and len(ops) == len(TOPS) + 1:
            # scale: far more aliases in one line than any random history wires up
            op = {"op": "chain", "on": [rng.choice(TOPS)], "n": rng.choice([41, 48, 64]), "how": rng.choice(["obj", "obj", "path"])}
            ops.append(op)
            ex.step(op, None)
    return {"ops": ops, "swarm": swarm}


def _pick_alias(rng, model):
    aliases = [p for p, n in model.walk() if n.kind == "alias"]
    if aliases and rng.random() < 0.9:
        return list(rng.choice(aliases))
    return _gen_path(rng, model)


# ------------------------------------------------------------------------------------------------
# Execution


class _RecDict(dict):
    """`Object.aliases` replacement that remembers who wrote which slot, in order (observation only)."""

    def __init__(self):
        super().__init__()
        self.writes = {}
        self.seq = 0

    # one clock for all registries of a run, and the moment every writer was first seen (the writers are kept alive so
    # that their ids are not reused)
    gseq = 0
    first_seen: dict = {}

    def __setitem__(self, key, value):
        self.seq += 1
        _RecDict.gseq += 1
        if id(value) not in _RecDict.first_seen:
            _RecDict.first_seen[id(value)] = (_RecDict.gseq, value)
        self.writes.setdefault(key, []).append((self.seq, id(value)))
        super().__setitem__(key, value)


class Executor:
    def __init__(self, ctx, model_only=False, preparent=False):
        self.ctx = ctx
        self.preparent = preparent
        self.model = Model()
        self.model_only = model_only
        self.objs: dict[int, object] = {}  # uid -> real object
        self.uids: dict[int, int] = {}  # id(real) -> uid
        self.moved_inside: set[int] = set()  # aliases that travelled inside a re-inserted subtree
        self.used_second_collection = False
        self.attach_gseq: dict = {}  # id(alias) -> run-wide registry clock at its last insertion
        _RecDict.gseq = 0
        _RecDict.first_seen = {}
        self.reg_seen_ok: set = set()
        self.attach_mark: dict = {}  # id(alias) -> (id(target), length of the target's registry log before its last insertion)  # (alias uid, id(target), path) whose registration was seen correct
        if not model_only:
            import griffe

            self.g = griffe
            self.coll = griffe.ModulesCollection()
            self.objs[0] = self.coll
            self.uids[id(self.coll)] = 0
            self.coll2 = griffe.ModulesCollection()
            self.objs[ROOT2_UID] = self.coll2
            self.uids[id(self.coll2)] = ROOT2_UID

    # -- construction of values --------------------------------------------------------------

    def make_value(self, spec, container_path, container=None):
        """Return (model_node, real_object_or_None, tags)."""
        m = self.model
        if "detached" in spec:
            at_root = len(container_path) == 0
            # (only modules are put at the top level of a collection - including former sub-modules)
            cands = [n for n in m.detached if n.kind == "module" or not at_root]
            if cands:
                node = cands[spec["detached"] % len(cands)]
                return node, self.objs.get(node.uid), ["reinsert"]
            spec = {"new": "module" if at_root else "function", "name": "m1" if at_root else "a"}
        kind, name = spec["new"], spec["name"]
        node = Node(kind, m.next_uid, name)
        m.next_uid += 1
        real = None
        tags = []
        if kind == "alias":
            if "tobj" in spec:
                tnode, why = m.lookup(spec["tobj"])
                if tnode is None or tnode is m.root:
                    node.tstr = ".".join(spec["tobj"])
                else:
                    node.tobj = tnode.uid
                    node.tstr = ".".join(spec["tobj"])
                    if list(spec["tobj"]) == list(container_path) + [name]:
                        tags.append("alias-to-displaced")
            else:
                node.tstr = spec["tstr"]
        if not self.model_only:
            g = self.g
            # the visitor constructs members with parent= already set and then calls set_member; extensions often do not
            kw = {}
            if self.preparent and container is not None and container is not m.root and container.kind != "alias":
                kw["parent"] = self.objs[container.uid]
                tags.append("preparented")
            if kind == "alias":
                if node.tobj is not None:
                    if spec.get("inherited"):
                        # an alias that carries the `inherited` mark although it is a declared member (what pinning the
                        # wrapper of an inherited member with `cls.set_member(n, cls.inherited_members[n])` gives)
                        kw["inherited"] = True
                        tags.append("marked-inherited")
                    real = g.Alias(name, self.objs[node.tobj], **kw)
                else:
                    real = g.Alias(name, node.tstr, **kw)
            elif kind == "module":
                if spec.get("ns"):
                    real = g.Module(name, filepath=[Path(f"/nonexistent/u{node.uid}a/{name}"), Path(f"/nonexistent/u{node.uid}b/{name}")], **kw)
                else:
                    real = g.Module(name, filepath=Path(f"/nonexistent/u{node.uid}/{name}.{'pyi' if spec.get('pyi') else 'py'}"), **kw)
            elif kind == "class":
                real = g.Class(name, bases=list(spec.get("bases", [])), **kw)
                if spec.get("bases"):
                    tags.append("has-bases")
            elif kind == "function":
                real = g.Function(name, **kw)
            else:
                real = g.Attribute(name, **kw)
            if kind != "alias":
                real.aliases = _RecDict()
            self.objs[node.uid] = real
            self.uids[id(real)] = node.uid
        if kind == "module":
            node.ns = bool(spec.get("ns"))
            node.pyi = bool(spec.get("pyi"))
            if spec.get("filled"):
                self._fill_module(node, real)
                tags.append("filled-stub-module" if node.pyi else "filled-module")
        return node, real, tags

    def _fill_module(self, node, real):
        """Give a fresh module the members {a: function, b: class {c: attribute}} (model and real, built with the API)."""
        m = self.model
        specs = [("a", "function", node), ("b", "class", node)]
        made = {}
        for name, kind, parent in specs + [("c", "attribute", None)]:
            parent = parent if parent is not None else made["b"][0]
            child = Node(kind, m.next_uid, name)
            m.next_uid += 1
            child.parent = parent
            parent.children[name] = child
            made[name] = (child, None)
            if not self.model_only:
                g = self.g
                cls = {"function": g.Function, "class": g.Class, "attribute": g.Attribute}[kind]
                robj = cls(name)
                robj.aliases = _RecDict()
                rparent = real if parent is node else made["b"][1]
                rparent.set_member(name, robj)
                self.objs[child.uid] = robj
                self.uids[id(robj)] = child.uid
                made[name] = (child, robj)

    # -- keys ------------------------------------------------------------------------------------

    def key_and_base(self, form, path):
        """How the caller spells the access: returns (base_path, key) - the op is issued on the object at base_path."""
        if form == "name" or len(path) == 1:
            return path[:-1], path[-1]
        if form == "chain":
            return path[:-1], path[-1]
        if form == "dotted":
            return [], ".".join(path)
        if form == "tuple":
            return [], tuple(path)
        if len(path) < 3:
            return path[:-1], path[-1]
        if form == "rel_dotted":
            return path[:1], ".".join(path[1:])
        return path[:1], list(path[1:])

    # -- one step ------------------------------------------------------------------------------

    def step(self, op, ctx):
        kind = op["op"]
        return getattr(self, "op_" + kind)(op, ctx)

    def _real(self, node):
        return self.objs[node.uid]

    def op_set(self, op, ctx):
        m = self.model
        on = list(op["on"])
        container, why = m.lookup(on)
        if why == "alias" or (container is not None and container.kind == "alias"):
            if ctx:
                ctx.log("skip", "container path traverses an alias")
            return
        try:
            node, real, tags = self.make_value(op["value"], on, container)
        except Exception as e:  # noqa: BLE001
            if self.model_only or ctx is None:
                raise
            # building an alias on an object registers it there, which can dereference other aliases: alias errors
            # are swallowed by the constructor, anything else is a defect of the code under test, not of the harness
            ctx.fail("I7-construct", f"constructing the value {op['value']} raised {type(e).__name__}: {e}", exc=e)
            return
        path = on + [node.name]
        base_path, key = self.key_and_base(op["form"], path)
        expect = "ok" if container is not None else "KeyError"
        if container is not None and len(on) == 0 and node.kind != "module":
            if ctx:
                ctx.log("skip", "non-module into collection")
            return
        old = container.children.get(node.name) if container is not None else None

        # set_member merges a module with a stubs module of the same name (implicit .pyi support): the stubs
        # module's own members move into the regular one, which keeps (or takes) the slot; item assignment does not
        merged_into = stubs = None
        if expect == "ok" and old is not None and old is not node and old.kind == "module" and node.kind == "module" and op["api"] == "set_member" and (old.pyi or node.pyi) and not old.ns and not node.ns:  # a namespace package (list of directories) has no module file to merge stubs with
            merged_into, stubs = (node, old) if old.pyi else (old, node)
            if _merge_meets_alias(merged_into, stubs):
                if ctx:
                    ctx.log("skip", "stub merge would pass through or move an alias")
                    ctx.probe("stub-merge-involving-alias-skipped")
                return

        def _merge_children(regular, stubs_node):
            for cname, child in list(stubs_node.children.items()):
                mine = regular.children.get(cname)
                if mine is None:
                    del stubs_node.children[cname]
                    regular.children[cname] = child
                    child.parent = regular
                    for _, n in [((), child), *m.walk(child, ())]:
                        if n.kind == "alias":
                            self.moved_inside.add(n.uid)
                elif mine.kind == child.kind and mine.kind in ("class", "module"):
                    _merge_children(mine, child)

        def apply_model():
            if merged_into is not None:
                _merge_children(merged_into, stubs)
                # what is left of the stubs module is dropped: it is not a value later operations may re-insert
                if stubs in m.detached:
                    m.detached.remove(stubs)
                if merged_into is node:
                    if "reinsert" in tags:
                        for _, n in m.walk(node, ()):
                            if n.kind == "alias":
                                self.moved_inside.add(n.uid)
                    if node in m.detached:
                        m.detached.remove(node)
                    container.children[node.name] = node
                    node.parent = container
                    if container is m.root:
                        node.top_in.add(m.root.uid)
                return
            if "reinsert" in tags:
                for _, n in m.walk(node, ()):
                    if n.kind == "alias":
                        self.moved_inside.add(n.uid)
            if old is not None:
                m.detached.append(old)
            if node in m.detached:
                m.detached.remove(node)
            container.children[node.name] = node
            node.parent = container
            if container is m.root:
                node.top_in.add(m.root.uid)

        if self.model_only:
            if expect == "ok":
                apply_model()
            return
        if container is None and op["api"] == "setitem" and self._passes_inherited(on):
            ctx.log("skip", "consumer-API insertion through a merely inherited name (not judged)")
            ctx.probe("consumer-api-path-through-inherited-member-skipped")
            return
        # aliases (attached, outside the displaced subtree) that point at the member about to be replaced
        watchers = []
        if expect == "ok" and old is not None and old.kind != "alias" and op["api"] == "set_member":
            old_real = self.objs[old.uid]
            watchers = [(p, a) for p, a in self.real_aliases() if a._target is old_real and not _under(p, path) and a is not real]
            # the same member seen *through* a resolved alias of its container (what `coll["alias.name"]` hands out):
            # a caller holding such a view across the replacement must see it follow too
            if container is not m.root and node.kind != "alias":
                cont_real = self.objs[container.uid]
                for p, a in self.real_aliases():
                    if a._target is cont_real and not _under(p, path) and a is not real:
                        try:
                            view = a.get_member(node.name)
                        except Exception:  # noqa: BLE001
                            continue
                        if view.is_alias and view._target is old_real:
                            watchers.append(((*p, node.name), view))
                            ctx.probe("view-through-alias-held-across-replacement")
        before = self.snapshot() if (expect != "ok" or node.kind == "alias") else None
        base = self.objs[0] if not base_path else self._lookup_real(base_path)
        ctx.steps += 1
        ctx.log("set", (op["api"], op["form"], tuple(path), node.kind, node.uid, tuple(tags)))
        if node.kind == "alias" and real._target is not None and not real._target.is_alias and isinstance(real._target.aliases, _RecDict):
            # an insertion (re-)registers the alias with its target: remember how far that registry had got before
            self.attach_mark[id(real)] = (id(real._target), real._target.aliases.seq)
        if node.kind == "alias" and real is not None:
            self.attach_gseq[id(real)] = _RecDict.gseq
        exc = None
        if base is None:
            # chained spelling and the intermediate is missing: caller gets KeyError from the lookup
            exc = KeyError("chain")
        else:
            try:
                if op["api"] == "set_member":
                    base.set_member(key, real)
                else:
                    base[key] = real
            except Exception as e:  # noqa: BLE001
                exc = e
        alltags = tags + (["replace", f"old-{old.kind}"] if old is not None else []) + [f"new-{node.kind}"]
        if expect == "ok" and exc is not None and node.kind == "alias" and isinstance(exc, (AttributeError, self.g.AliasResolutionError, self.g.CyclicAliasError)):
            # Inserting an alias can fail because the alias (or an alias that has to follow the replacement)
            # cannot be dereferenced.  The property constrains the resulting state, not whether such an insertion
            # is accepted: adopt whichever outcome the real tree shows; the invariants below judge the state.
            changed = self.snapshot() != before
            ctx.log("outcome", ("ok", type(exc).__name__, "applied" if changed else "not-applied"))
            ctx.probe("alias-insert-raised-" + type(exc).__name__ + ("-applied" if changed else "-atomic"))
            ctx.fault("alias-insert-raised")
            if changed:
                apply_model()
            return
        if expect == "ok" and exc is None:
            apply_model()
        self._judge(ctx, op, expect, exc, before if expect != "ok" else None, alltags)
        if expect == "ok" and exc is None and watchers and node.kind == "alias":
            # replaced by an alias: whether and how other aliases can follow depends on that alias being
            # followable (resolution matters, C06); only replacements by real objects are judged here
            ctx.probe("replacement-by-alias-with-watchers")
        elif expect == "ok" and exc is None and watchers:
            new_path = ".".join(path)
            final_real = real if merged_into is None else self.objs[merged_into.uid]
            for p, a in watchers:
                if a._target is not final_real:
                    # set_member finds the aliases to retarget in the replaced member's `aliases`: an alias whose slot
                    # there was taken over later by a stale alias object of the same path (known finding KF2) is missed
                    t2 = list(alltags)
                    rec = self.objs[old.uid].aliases
                    writes = rec.writes.get(".".join(p), []) if isinstance(rec, _RecDict) else []
                    if any(who == id(a) for _, who in writes) and writes[-1][1] != id(a):
                        t2.append("slot-held-by-stale-alias")
                    ctx.fail("I5-follow", f"alias {'.'.join(p)} targeted the replaced member {new_path} but does not follow the replacement", tags=t2)
                elif a.target_path != new_path:
                    ctx.fail("I5-path", f"alias {'.'.join(p)} follows the replacement but reports target path {a.target_path!r} instead of {new_path!r}", tags=alltags)

    def op_chain(self, op, ctx):
        """A long acyclic chain of aliases k0 -> k1 -> ... -> kf (a function), built with set_member."""
        m = self.model
        on = list(op["on"])
        container, why = m.lookup(on)
        if container is None or container.kind not in ("module", "class") or any(n.startswith("k") and n[1:].isdigit() or n == "kf" for n in container.children):
            if ctx:
                ctx.log("skip", "no place for a chain")
            return
        n = op["n"]
        names = [f"k{i}" for i in range(n)]
        nodes = []
        fnode = Node("function", m.next_uid, "kf")
        m.next_uid += 1
        fnode.parent = container
        container.children["kf"] = fnode
        prev = fnode
        for name in reversed(names):
            a = Node("alias", m.next_uid, name)
            m.next_uid += 1
            a.parent = container
            a.tstr = ".".join(on + [prev.name])
            a.tobj = prev.uid if op["how"] == "obj" else None
            container.children[name] = a
            nodes.append(a)
            prev = a
        if self.model_only:
            return
        g = self.g
        rcont = self.objs[container.uid]
        ctx.steps += 1
        ctx.log("chain", (tuple(on), n, op["how"]))
        func = g.Function("kf")
        func.aliases = _RecDict()
        self.objs[fnode.uid] = func
        self.uids[id(func)] = fnode.uid
        try:
            rcont.set_member("kf", func)
            rprev = func
            for a in nodes:
                real = g.Alias(a.name, rprev if op["how"] == "obj" else a.tstr)
                self.objs[a.uid] = real
                self.uids[id(real)] = a.uid
                rcont.set_member(a.name, real)
                rprev = real
        except Exception as e:  # noqa: BLE001
            ctx.fail("I4-op-raised", f"building a chain of {n} aliases with set_member raised {type(e).__name__}: {e}", exc=e)
            return
        first = self.objs[nodes[-1].uid]
        try:
            end = first.final_target
        except Exception as e:  # noqa: BLE001
            ctx.fail("I7-long-chain", f"{'.'.join(on + ['k0'])}: an acyclic chain of {n} aliases ending at a function cannot be followed: {type(e).__name__}", exc=e)
            return
        if end is not func:
            ctx.fail("I7-long-chain", f"{'.'.join(on + ['k0'])}: the chain of {n} aliases does not end at its function")
            return
        if op["how"] == "obj" and func.aliases.get(".".join(on + ["k0"])) is not first:
            ctx.fail("I6-registration", f"{'.'.join(on + ['k0'])}: first link of a {n}-alias chain is not listed among the aliases of the function it ends at")
            return
        ctx.probe("long-alias-chain", n)

    def op_transfer(self, op, ctx):
        """Move a top-level module to the other collection: delete it here, insert it there."""
        self.used_second_collection = True
        m = self.model
        src, dst = (m.root, m.root2) if op["dir"] == "out" else (m.root2, m.root)
        node = src.children.get(op["name"])
        if node is None or node.kind != "module" or op["name"] in dst.children:
            if ctx:
                ctx.log("skip", "nothing to transfer")
            return
        del src.children[op["name"]]
        dst.children[op["name"]] = node
        node.parent = dst
        node.top_in.add(dst.uid)
        if self.model_only:
            return
        rsrc, rdst = self.objs[src.uid], self.objs[dst.uid]
        real = self.objs[node.uid]
        ctx.steps += 1
        ctx.log("transfer", (op["name"], op["dir"], op["api"]))
        try:
            if op["api"] == "set_member":
                rsrc.del_member(op["name"])
                rdst.set_member(op["name"], real)
            else:
                del rsrc[op["name"]]
                rdst[op["name"]] = real
        except Exception as e:  # noqa: BLE001
            ctx.fail("I4-op-raised", f"{op} should succeed per model but raised {type(e).__name__}: {e}", exc=e)
            return
        ctx.probe("module-moved-to-another-collection")

    def op_del(self, op, ctx):
        m = self.model
        path = list(op["path"])
        node, why = m.lookup(path)
        parent, pwhy = m.lookup(path[:-1])
        if pwhy == "alias" or (parent is not None and parent.kind == "alias"):
            if ctx:
                ctx.log("skip", "path traverses an alias")
            return
        expect = "ok" if node is not None else "KeyError"
        if expect == "ok":
            del parent.children[path[-1]]
            m.detached.append(node)
        if self.model_only:
            return
        if node is None and op["api"] == "delitem" and self._passes_inherited(path):
            ctx.log("skip", "consumer-API deletion through a merely inherited name (not judged)")
            ctx.probe("consumer-api-path-through-inherited-member-skipped")
            return
        before = self.snapshot() if expect != "ok" else None
        base_path, key = self.key_and_base(op["form"], path)
        base = self.objs[0] if not base_path else self._lookup_real(base_path)
        ctx.steps += 1
        ctx.log("del", (op["api"], op["form"], tuple(path)))
        exc = None
        if base is None:
            exc = KeyError("chain")
        else:
            try:
                if op["api"] == "del_member":
                    base.del_member(key)
                else:
                    del base[key]
            except Exception as e:  # noqa: BLE001
                exc = e
        self._judge(ctx, op, expect, exc, before, [])

    def op_bad(self, op, ctx):
        m = self.model
        container, why = m.lookup(op["on"])
        if container is None or container.kind == "alias":
            return
        if self.model_only:
            return
        key = "" if op["what"] == "empty_str" else ()
        base = self._real(container)
        before = self.snapshot()
        ctx.steps += 1
        ctx.log("bad", (op["what"], op["api"], tuple(op["on"])))
        exc = None
        try:
            if op["api"] == "get":
                base.get_member(key)
            elif op["api"] == "set":
                base.set_member(key, self.g.Function("zz"))
            else:
                base.del_member(key)
        except Exception as e:  # noqa: BLE001
            exc = e
        self._judge(ctx, op, "ValueError", exc, before, [])

    def op_resolve(self, op, ctx):
        m = self.model
        node, why = m.lookup(op["alias"])
        if node is None or node.kind != "alias":
            return
        if self.model_only:
            return
        a = self._real(node)
        own = ".".join(op["alias"])
        was_resolved = a._target is not None
        ctx.steps += 1
        ctx.log("resolve", (tuple(op["alias"]), op["how"], was_resolved))
        exc = None
        try:
            if op["how"] == "target":
                a.target  # noqa: B018
            elif op["how"] == "final_target":
                a.final_target  # noqa: B018
            else:
                a.resolve_target()
        except (self.g.AliasResolutionError, self.g.CyclicAliasError) as e:
            exc = e
        except Exception as e:  # noqa: BLE001
            ctx.fail("I7-resolve-exc", f"{op['how']} on alias {own} raised {type(e).__name__}: {e}", exc=e)
            return
        ctx.log("resolved", (type(exc).__name__ if exc else None, a._target is not None))
        if not was_resolved and a.target_path == own:
            # lazy resolution of an alias whose target path is its own path must refuse to bind
            if a._target is not None or not isinstance(exc, self.g.CyclicAliasError):
                ctx.fail("I7-selfpath", f"alias {own} with target path equal to its own path: exc={type(exc).__name__ if exc else None}, bound={a._target is not None}")

    def op_retarget(self, op, ctx):
        m = self.model
        node, why = m.lookup(op["alias"])
        if node is None or node.kind != "alias":
            return
        if self.model_only:
            return
        a = self._real(node)
        own = ".".join(op["alias"])
        expect = "ok"
        if op["to"] == "self":
            value = a
            expect = "CyclicAliasError"
        elif op["to"] == "samepath":
            value = self.g.Function(a.name, parent=a.parent)
            expect = "CyclicAliasError"
        else:
            tnode, twhy = m.lookup(op["to"])
            if tnode is None or tnode is m.root:
                return
            value = self._real(tnode)
            if tnode is node:
                expect = "CyclicAliasError"
        before = self.snapshot() if expect != "ok" else None
        ctx.steps += 1
        ctx.log("retarget", (tuple(op["alias"]), op["to"] if isinstance(op["to"], str) else tuple(op["to"])))
        exc = None
        try:
            a.target = value
        except Exception as e:  # noqa: BLE001
            exc = e
        if expect == "ok":
            if isinstance(exc, (self.g.AliasResolutionError, self.g.CyclicAliasError)) and value.is_alias:
                # registering under a target that is itself an alias needs that alias to be followable;
                # what happens otherwise is about resolution (C06), not about tree mutation
                ctx.log("retarget-unfollowable", type(exc).__name__)
                ctx.probe("retarget-to-unfollowable-alias")
                return
            if exc is not None:
                ctx.fail("I7-retarget-exc", f"alias {own}.target = <{type(value).__name__} {value.path}> raised {type(exc).__name__}: {exc}", exc=exc)
                return
            if a._target is not value or a.target_path != value.path:
                ctx.fail("I7-retarget", f"alias {own} after retargeting: _target is value={a._target is value}, target_path={a.target_path!r}, expected {value.path!r}")
        else:
            self._judge(ctx, op, expect, exc, before, ["retarget-" + str(op["to"])])

    # -- helpers -------------------------------------------------------------------------------

    def _passes_inherited(self, path):
        """True when walking `path` in the real tree leaves the declared members at a class whose bases provide the
        name: the consumer API (`obj[...]`, `del obj[...]`) follows inherited members, the reference model does not."""
        obj = self.coll
        for part in path:
            if getattr(obj, "is_alias", False):
                return False
            nxt = obj.members.get(part)
            if nxt is None:
                if obj is not self.coll and obj.kind.value == "class":
                    try:
                        return part in obj.inherited_members
                    except Exception:  # noqa: BLE001
                        return True
                return False
            obj = nxt
        return False

    def _lookup_real(self, path):
        obj = self.coll
        for part in path:
            try:
                obj = obj.members[part]
            except KeyError:
                return None
        return obj

    def _judge(self, ctx, op, expect, exc, before, tags):
        got = type(exc).__name__ if exc is not None else "ok"
        ctx.log("outcome", (expect, got))
        if expect == "ok":
            if exc is not None:
                ctx.fail("I4-op-raised", f"{op} should succeed per model but raised {got}: {exc}", exc=exc, tags=tags)
            return
        ctx.fault("rejected-" + expect)
        if exc is None:
            ctx.fail("I8-accepted", f"{op} should be rejected with {expect} but succeeded", tags=tags)
        elif got != expect:
            if op["op"] == "del" and not isinstance(exc, (KeyError, ValueError)):
                ctx.probe("absent-delete-raised-" + got)
            elif op["op"] in ("retarget",) or not isinstance(exc, (KeyError, ValueError)):
                ctx.fail("I8-wrong-exc", f"{op} should be rejected with {expect} but raised {got}: {exc}", exc=exc, tags=tags)
        if before is not None and self.snapshot() != before:
            ctx.fail("I8-rejected-changed", f"{op} was rejected ({got}) but changed the tree", tags=tags)

    def snapshot(self):
        """Structural digest of the real tree reachable from the collection (raw dicts and pointers only)."""

        def snap(obj):
            out = []
            for name, mem in obj.members.items():
                uid = self.uids.get(id(mem), -1)
                if mem.is_alias:
                    out.append((name, "alias", uid, self.uids.get(id(mem._target), None if mem._target is None else -1), mem.target_path))
                else:
                    out.append((name, type(mem).__name__, uid, snap(mem)))
            return tuple(out)

        return snap(self.coll)

    # -- invariants, evaluated after every step ------------------------------------------------

    def check(self, ctx):
        if not self._check_tree(ctx, self.model.root, self.coll, True):
            return False
        if self.model.root2.children or self.coll2.members:
            return self._check_tree(ctx, self.model.root2, self.coll2, False)
        return True

    def _check_tree(self, ctx, root_node, coll, primary):
        m = self.model
        g = self.g

        def rec(mnode, robj, path):
            mkeys = list(mnode.children)
            rkeys = list(robj.members)
            if sorted(mkeys) != sorted(rkeys):
                ctx.fail("I4-membership", f"members of {'.'.join(path) or '<collection>'}: real {sorted(rkeys)} != model {sorted(mkeys)}")
                return False
            for name in mkeys:
                cn, co = mnode.children[name], robj.members[name]
                p = [*path, name]
                dotted = ".".join(p)
                if self.uids.get(id(co)) != cn.uid:
                    ctx.fail("I4-identity", f"{dotted}: holds object u{self.uids.get(id(co))}, model says u{cn.uid}")
                    return False
                # (1) parent is container
                par = co._parent if co.is_alias else co.parent
                if robj is coll:
                    if co._modules_collection is not coll:
                        ctx.fail("I1-collection", f"{dotted}: module in the collection does not point back at the collection")
                        return False
                elif par is not robj:
                    ctx.fail("I1-parent", f"{dotted}: parent is {par!r}, container is {robj!r}", tags=[f"kind-{cn.kind}"])
                    return False
                # (2) retrievable by its own path
                try:
                    own_path = co.path
                    got = coll.get_member(own_path)
                except Exception as e:  # noqa: BLE001
                    ctx.fail("I2-own-path", f"{dotted}: collection.get_member(obj.path) raised {type(e).__name__}: {e}", exc=e, tags=[f"kind-{cn.kind}"])
                    return False
                if got is not co or own_path != dotted:
                    ctx.fail("I2-own-path", f"{dotted}: obj.path={own_path!r}; collection.get_member(obj.path) is obj: {got is co}", tags=[f"kind-{cn.kind}"])
                    return False
                # ... and the collection the object itself names is the one it hangs in
                try:
                    own_coll = co.modules_collection
                except Exception as e:  # noqa: BLE001
                    ctx.fail("I2-own-collection", f"{dotted}: obj.modules_collection raised {type(e).__name__}: {e}", exc=e, tags=[f"kind-{cn.kind}"])
                    return False
                if own_coll is not coll:
                    # a module keeps the pointer to the collection it was a top-level module of when it is re-inserted
                    # below another module (known finding KF3): visible once that module lives in another collection
                    chain, n = [], cn
                    while n is not None and n.parent is not None and n.parent.kind != "collection":
                        chain.append(n)
                        n = n.parent
                    stale = any(x.top_in - {root_node.uid} for x in chain)
                    ctx.fail("I2-own-collection", f"{dotted}: the object names another modules collection than the one it is retrievable from", tags=[f"kind-{cn.kind}"] + (["former-top-level-module-of-another-collection"] if stale else []))
                    return False
                # (3) dotted / tuple / chained lookups agree
                try:
                    r1 = coll.get_member(dotted)
                    r2 = coll.get_member(tuple(p))
                    r3 = coll[dotted]
                    r4 = coll[tuple(p)]
                    r5 = robj.get_member(name)
                    r6 = robj[name]
                except Exception as e:  # noqa: BLE001
                    if self._broken_inheritance_on_path(p):
                        ctx.probe("lookup-through-class-with-non-class-base")
                        continue
                    ctx.fail("I3-lookup", f"{dotted}: lookup raised {type(e).__name__}: {e}", exc=e)
                    return False
                if not (r1 is co and r2 is co and r3 is co and r4 is co and r5 is co and r6 is co):
                    ctx.fail("I3-lookup", f"{dotted}: dotted/tuple/item/chained lookups disagree")
                    return False
                if cn.kind == "alias":
                    t = co._target
                    # (7) never its own target
                    if t is co:
                        ctx.fail("I7-self-target", f"alias {dotted} targets itself")
                        return False
                    if t is not None and not t.is_alias and t.members:
                        # (3) lookups that pass *through* a resolved alias: dotted, tuple, item and chained spellings
                        # all lead to a view of the same member of the target
                        n0 = next(iter(t.members))
                        want = t.members[n0]
                        try:
                            views = [coll.get_member(f"{dotted}.{n0}"), coll.get_member((*p, n0)), coll[f"{dotted}.{n0}"], co.get_member(n0), co[n0], coll[dotted][n0]]
                            finals = [v.target if v.is_alias else v for v in views]
                        except Exception as e:  # noqa: BLE001
                            ctx.fail("I3-alias-lookup", f"{dotted}.{n0}: lookup through the resolved alias raised {type(e).__name__}: {e}", exc=e)
                            return False
                        if not all(f is want for f in finals) or not all(v.path == f"{dotted}.{n0}" for v in views if v.is_alias):
                            ctx.fail("I3-alias-lookup", f"{dotted}.{n0}: dotted/tuple/item/chained lookups through the alias disagree or carry the wrong path")
                            return False
                        # (6) what such a lookup hands out is a resolved alias too: it is listed among its target's aliases
                        # (building the view of one member can rebuild the views of its siblings, so the listed object is
                        # some alias of that path and target, not necessarily the very object this lookup returned)
                        reg = want.aliases.get(f"{dotted}.{n0}") if not want.is_alias else None
                        if views[-1].is_alias and not want.is_alias and not (reg is not None and reg.is_alias and reg._target is want and reg.path == f"{dotted}.{n0}"):
                            ctx.fail("I6-view-registration", f"{dotted}.{n0}: the alias handed out by a lookup through {dotted} is not listed in its target's aliases under its path")
                            return False
                        ctx.probe("lookups-through-alias")
                    if t is not None and not t.is_alias and t.kind.value == "class" and t.bases:
                        # (3) inherited members seen through the alias follow the *current* members of the base classes
                        tnode = next((n for pp, n in m.walk() if n.uid == self.uids.get(id(t))), None)
                        tpath = next((list(pp) for pp, n in m.walk() if n.uid == self.uids.get(id(t))), None)
                        if tnode is not None and tpath is not None and not self._broken_inheritance_on_path(tpath):
                            base_node, why = m.lookup(str(t.bases[0]).split("."))
                            if base_node is not None and base_node.kind == "class":
                                own = set(tnode.children)
                                for n1, child in base_node.children.items():
                                    if n1 in own:
                                        continue
                                    want1 = self.objs.get(child.uid)
                                    try:
                                        got = [coll[f"{dotted}.{n1}"], coll[(*p, n1)], coll[dotted][n1]]
                                        finals = [(v.target if v.is_alias else v) for v in got]
                                        finals = [(f.target if f.is_alias and f.inherited else f) for f in finals]
                                    except Exception as e:  # noqa: BLE001
                                        ctx.fail("I3-inherited-lookup", f"{dotted}.{n1}: inherited member of the target's base is not reachable through the alias: {type(e).__name__}: {e}", exc=e)
                                        return False
                                    if not all(f is want1 for f in finals):
                                        ctx.fail("I3-inherited-lookup", f"{dotted}.{n1}: lookup through the alias does not lead to the base class's current member")
                                        return False
                                for gone in ("a", "b", "c"):
                                    if gone not in own and gone not in base_node.children and not any(gone in bn.children for bn in [base_node]):
                                        bb = self.objs.get(base_node.uid)
                                        if getattr(bb, "bases", None):
                                            continue  # deeper inheritance: not modelled here
                                        try:
                                            coll[f"{dotted}.{gone}"]
                                        except KeyError:
                                            pass
                                        except Exception as e:  # noqa: BLE001
                                            ctx.fail("I3-inherited-lookup", f"{dotted}.{gone}: absent name through the alias raised {type(e).__name__}", exc=e)
                                            return False
                                        else:
                                            ctx.fail("I3-inherited-lookup", f"{dotted}.{gone}: a name that neither the class nor its base has (any longer) is still found through the alias")
                                            return False
                                ctx.probe("inherited-lookups-through-alias")
                    if t is not None and t.is_alias:
                        # the target is itself an alias: its `aliases` is a proxy for whatever it resolves to now
                        ctx.probe("alias-targets-alias")
                    elif t is not None:
                        # (6) registered among the target's aliases under the current path
                        reg = t.aliases.get(dotted)
                        if reg is not co:
                            tags = ["moved-subtree"] if self._moved_with_ancestor(cn) else []
                            writes = t.aliases.writes.get(dotted, []) if isinstance(t.aliases, _RecDict) else []
                            mark = self.attach_mark.get(id(co))
                            since = mark[1] if mark and mark[0] == id(t) else 0
                            # (only a registration made by its *last* insertion counts: an alias put back where it was
                            # must be listed again, whatever took its entry while it was away)
                            mine = [seq for seq, who in writes if who == id(co) and seq > since]
                            # (the displacer is a stale alias - one of this history, deleted, replaced or moved away, or a view
                            # handed out by an earlier lookup through an alias -, not the wrapper of an *inherited* member,
                            # which has no business at the path of a declared one)
                            # (wrappers are rebuilt on every lookup and take each other's place by design: only a
                            # *declared* alias of this history displaced by an inherited-member wrapper is something new)
                            # (with a second collection in play the same dotted path can name objects of both collections, and
                            # a wrapper of one takes the registry slot of a declared alias of the other: old attribution)
                            # (... and only when that wrapper was *made* after the declared alias had been inserted: a wrapper
                            # made before, when the name was still inherited, is a stale alias like any other)
                            born_after = _RecDict.first_seen.get(id(reg), (0, None))[0] > self.attach_gseq.get(id(co), 1 << 60)
                            if reg is not None and mine and writes[-1][1] != id(co) and not (getattr(reg, "inherited", False) and id(reg) not in self.uids and born_after and id(co) in self.uids and not self.used_second_collection):
                                # this alias did register itself here; later another alias object that lived at this
                                # path earlier (deleted, replaced or moved away since; entries are never purged)
                                # re-registered itself and displaced it
                                tags.append("slot-held-by-stale-alias")
                            ctx.fail("I6-registration", f"resolved alias {dotted} is not listed in its target's aliases under that path (keys: {sorted(t.aliases)[:6]})", tags=tags)
                            return False
                else:
                    if not rec(cn, co, p):
                        return False
            return True

        ok = rec(root_node, coll, [])
        if not ok:
            return False
        if not primary:
            return True
        # absent keys raise KeyError
        for probe in (["zz"], ["m1", "zz"], ["m1", "a", "zz"]):
            node, why = m.lookup(probe)
            if node is None and why == "missing":
                for fn in (coll.get_member, coll.__getitem__):
                    try:
                        fn(".".join(probe))
                    except KeyError:
                        pass
                    except Exception as e:  # noqa: BLE001
                        ctx.fail("I3-absent", f"lookup of absent {'.'.join(probe)} raised {type(e).__name__}", exc=e)
                        return False
                    else:
                        ctx.fail("I3-absent", f"lookup of absent {'.'.join(probe)} returned a value")
                        return False
        return True

    def _moved_with_ancestor(self, node):
        return node.uid in self.moved_inside

    def _broken_inheritance_on_path(self, p, seen=None):
        """True when a class on the path has a base that does not (any longer) resolve to a class: the consumer API
        merges inherited members and cannot do so then - the history made the *input* invalid Python."""
        seen = seen if seen is not None else set()
        if tuple(p) in seen:
            return True  # cyclic inheritance
        seen.add(tuple(p))
        obj = self.coll
        for part in p:
            obj = obj.members.get(part)
            if obj is None or obj.is_alias:
                return False
            if obj.kind.value == "class":
                for base in obj.bases:
                    cur = self.coll
                    for bp in str(base).split("."):
                        cur = cur.members.get(bp) if cur is not None and not getattr(cur, "is_alias", False) else None
                    if cur is None or getattr(cur, "is_alias", True) or cur.kind.value != "class" or cur is obj:
                        return True
                    if self._broken_inheritance_on_path(str(base).split("."), seen):
                        return True
        return False

    def _attached_real(self, obj):
        return any(a is obj for _, a in self.real_aliases())

    def real_aliases(self):
        def rec(obj, path):
            for name, mem in obj.members.items():
                if mem.is_alias:
                    yield (*path, name), mem
                else:
                    yield from rec(mem, (*path, name))

        yield from rec(self.coll, ())


def _is_namespace(m, node):
    """Module.is_namespace_package / is_namespace_subpackage for a node of the model."""
    if not node.ns:
        return False
    par = node.parent
    return par is None or par.kind == "collection" or (par.kind == "module" and _is_namespace(m, par))


def _merge_meets_alias(regular, stubs):
    """The merge recurses into same-named classes/modules; when the regular side holds an alias where the stubs
    hold something, griffe merges into whatever the alias resolves to - resolution (C06) decides, not modelled."""
    for cname, child in stubs.children.items():
        mine = regular.children.get(cname)
        if mine is None:
            # Moving an alias re-registers it with its target, which dereferences the rest of its chain: when that
            # fails inside the (not yet attached) regular module the merge stops half-way and the error is swallowed
            # by set_member - what is merged then depends on resolution, not on the tree operations judged here.
            if child.kind == "alias":
                return True
            continue
        if mine.kind == "alias" and child.kind != "alias":
            return True
        if mine.kind == child.kind and mine.kind in ("class", "module") and _merge_meets_alias(mine, child):
            return True
    return False


def _under(p, path):
    return len(p) > len(path) and list(p[: len(path)]) == list(path)


def execute(plan, ctx):
    ex = Executor(ctx, preparent=bool(plan.get("swarm", {}).get("preparent")))
    ctx.nontrivial = False
    effective = 0
    trace = []
    for op in plan["ops"]:
        n_before = ctx.n_events
        ex.step(op, ctx)
        if ctx.failures:
            break
        if ctx.n_events > n_before:
            effective += 1
            trace.append(op["op"] + ":" + op.get("api", op.get("how", "")))
        if not ex.check(ctx):
            break
    snap = ex.snapshot()
    ctx.log("end", snap)
    ctx.nontrivial = effective >= 2
    if plan.get("swarm", {}).get("systematic"):
        ctx.probe("systematic-short-histories")
    ctx.cover.append((tuple(trace), _shape(snap)))


def _shape(snap):
    """State digest without object identities (so that distinctness counts shapes, not uids)."""
    out = []
    for item in snap:
        if item[1] == "alias":
            out.append((item[0], "alias", item[3] is not None, item[4]))
        else:
            out.append((item[0], item[1], _shape(item[3])))
    return tuple(out)


def shrink_candidates(plan):
    ops = plan["ops"]
    for red in core.list_reductions(ops):
        yield {**plan, "ops": red}
    for i, op in enumerate(ops):
        # simpler spellings
        for field, simple in (("form", "name"), ("api", "set_member" if op["op"] == "set" else "del_member")):
            if op.get(field) not in (None, simple):
                new = copy.deepcopy(op)
                new[field] = simple
                yield {**plan, "ops": ops[:i] + [new] + ops[i + 1 :]}
        if op["op"] == "set" and op["value"].get("new") in ("class", "attribute", "module") and op["on"]:
            new = copy.deepcopy(op)
            new["value"]["new"] = "function"
            yield {**plan, "ops": ops[:i] + [new] + ops[i + 1 :]}


def sample_view(plan):
    return {"seed": plan["seed"], "ops": plan["ops"][:12], "n_ops": len(plan["ops"])}


class _Prop:
    ID = "C16"
    TIERS = {
        "quick": {"runs": 300_000, "wall": 60, "det_n": 400, "shrink_s": 30},
        "thorough": {"runs": 8_000_000, "wall": 900, "det_n": 3000, "shrink_s": 90},
    }
    OPTS = {"chunk": 2000, "chunk_wall": 300}
    REPLAY_IN_PARENT = True
    RULE = (
        "every fourth run index of a batch (i = 4k, k < 92+92^2+92^3 = 787,244) is decoded as the k-th of *all* histories of 1-3 operations over a "
        "fixed 92-operation alphabet (systematic part, probe 'systematic-short-histories' counts how many ran); the "
        "others are: one run = one seeded history of 2+n (n in 1..40) operations over {collection, m1, m2} x names {a,b,c}: "
        "set_member/[]= (fresh module/class/function/attribute/alias or a previously detached object), "
        "del_member/del [], alias resolution (target/final_target/resolve_target), alias retargeting, empty-key "
        "rejections; keys spelled as name, dotted string, tuple or chained lookups; stepped in lock-step with a "
        "dictionary reference model, invariants I1-I8 after every step. A run is non-trivial when at least two "
        "operations took effect or were rejected; distinct = distinct (operation/API/outcome trace, identity-free "
        "end-state shape) pairs, counted with a set of 64-bit hashes. Swarm options add classes with bases (inheritance seen by the consumer API), members constructed with parent= preset, and lookups that pass through resolved aliases."
    )
    COMPONENTS = {
        "real": ["_griffe.mixins (Get/Set/DelMembersMixin, _get_parts)", "_griffe.models (Object, Module, Class, Function, Attribute, Alias)", "_griffe.collections.ModulesCollection", "_griffe.merger (reached via set_member on modules)"],
        "stubbed": [],
        "seams": ["none needed: the history itself is the schedule; rejections are the API's own faults"],
    }
    ASSUMPTIONS = [
        "values inserted are unattached at that moment (fresh or previously detached) and keyed by their own name",
        "mutation paths do not traverse aliases (Alias.members is a transient view)",
        "objects inserted into the collection are modules without a stale parent",
        "sampling, not enumeration: a clean batch is evidence, not proof",
    ]

    generate = staticmethod(generate)
    execute = staticmethod(execute)
    shrink_candidates = staticmethod(shrink_candidates)
    sample_view = staticmethod(sample_view)


PROP = _Prop()
