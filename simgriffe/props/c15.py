"""C15 - Static loading never executes analysed code; the interpreter's import path is always restored.

World: packages in which every module body has observable side effects (sentinel file, sys.path append/rebind,
attribute on builtins), fake compiled modules, stubs, an external package, and a fault plan (module k raises
Exception / ImportError / SystemExit / KeyboardInterrupt / sys.exit / imports a missing dependency / recurses
for ever, before or after touching sys.path).
History: 1-4 loads in one interpreter through griffe.load, GriffeLoader.load, dump() and main(["dump", ...]) with
every option combination.  The analysed package is the hostile environment; the import system is the seam.
"""

from __future__ import annotations

import builtins
import io
import os
import sys
from pathlib import Path

from simgriffe import core
from simgriffe.seams import World, purge_modules

PK, EXT, PRIV, EXT2 = "c15pk", "c15ext", "_c15pk", "c15ext2"
PYC_TOP = "c15pyc"  # a top-level module that exists only as (real, importable) sourceless bytecode
PTH_HOOK = "c15hook"  # a module named by an `import` line of a .pth file in the search path
# ... or is named like a source-less module of the standard library that this process never imports (a project that
# vendors its own build of an accelerator): the name is in sys.stdlib_module_names, the code is the project's
PYC_TOP_NAMES = [PYC_TOP, PYC_TOP, "_sqlite3", "_tkinter", "audioop", "_dbm"]
LAZY = "c15lazy"  # a package outside the search path that this process has imported *lazily* (importlib.util.LazyLoader)
WORLD_TOPS = {PK, EXT, PRIV, EXT2, PYC_TOP, PTH_HOOK, LAZY, "c15missingdep"}
FAULTS = ["exception", "importerror", "systemexit", "sysexit", "kbi", "missingdep", "recursion", "baseexc"]
COMPILED_SUFFIXES = (".so", ".pyd", ".pyc")

_audit = {"installed": False, "rec": None, "root": None}


def _hook(event, args):
    rec = _audit["rec"]
    if rec is None:
        return
    try:
        if event == "import":
            top = str(args[0]).split(".", 1)[0]
            if top in WORLD_TOPS:
                rec["import"].append(str(args[0]))
        elif event == "exec":
            code = args[0]
            fn = getattr(code, "co_filename", "")
            if _audit["root"] and isinstance(fn, str) and fn.startswith(_audit["root"]):
                rec["exec"].append(fn)
    except Exception:  # noqa: BLE001
        pass


def _install_audit():
    if not _audit["installed"]:
        sys.addaudithook(_hook)
        _audit["installed"] = True


# ------------------------------------------------------------------------------------------------
# Generation


# Analysed packages use these at import time; Griffe imports them with sys.path *replaced* by the search paths, so
# whether they can be imported then depends on whether the process has imported them before: make that constant.
import pkgutil  # noqa: E402,F401
import py_compile  # noqa: E402,F401

STD_SUBMODULES = {"json": ["decoder", "encoder"], "os": ["path"], "logging": ["handlers"], "collections": ["abc"], "importlib": ["util", "machinery"], "email": ["utils"], "xml": ["dom"]}
for _pkg, _subs in STD_SUBMODULES.items():
    for _sub in _subs:
        __import__(f"{_pkg}.{_sub}")  # make sure the dotted names are in sys.modules, as in any long-lived process


def _gen_module(rng, name, cfg, others):
    m = {
        "sentinel": True,
        "append": rng.random() < cfg["p_path"],
        "rebind": rng.random() < cfg["p_path"] * 0.6,
        "builtin": rng.random() < 0.3,
        "fault": None,
        "fault_pos": rng.choice(["before", "after"]),
        "imports": [],
        # a legal non-UTF-8 source (PEP 263 cookie + a latin-1 byte): Griffe reads sources as UTF-8
        "latin1": rng.random() < cfg.get("p_latin1", 0.0),
        # __all__ computed by a call that needs nothing but builtins (and has a side effect of its own)
        "all_call": rng.random() < 0.12,
    }
    if others and rng.random() < 0.5:
        m["imports"].append(rng.choice(others))
    if rng.random() < cfg["p_ext"]:
        m["imports"].append(rng.choice([f"star:{EXT}", f"from:{EXT}", f"from:{PRIV}"]))
    return m


def generate(rng, opts):
    cfg = {"p_latin1": rng.choice([0.0, 0.0, 0.15]), "p_path": rng.choice([0.0, 0.5, 1.0]), "p_ext": rng.choice([0.0, 0.4, 0.8]), "compiled": rng.random() < 0.6, "stubs": rng.random() < 0.3}
    names = [PK] + [f"{PK}.{m}" for m in rng.sample(["a", "b", "c", "json", "types"], rng.choice([0, 1, 2, 3]))]
    if rng.random() < 0.4:
        names += [f"{PK}.sub", f"{PK}.sub.d"]
    # the analysed package declares itself a pkgutil-style namespace package (its __init__ really runs `extend_path`)
    cfg["pkgutil_init"] = rng.random() < 0.2
    # the import system can import it, the static finder cannot see it
    cfg["pyc_top"] = rng.random() < 0.2
    pyc_name = rng.choice(PYC_TOP_NAMES)
    # site-packages style: a .pth file whose `import x` line CPython's site module would execute at start-up
    cfg["pth_import"] = rng.random() < 0.2
    # the embedding process holds a lazily imported package that is not on the search path: its module object exists in
    # sys.modules, its body has not run yet (and touching the wrong attribute runs it)
    cfg["lazy_pkg"] = rng.random() < 0.15
    # PEP 562: the package imports its sub-modules on demand (`__getattr__` / `__dir__`, scipy / lazy_loader style), so
    # their bodies first run while the inspector looks at the members of the package, not when the package is imported
    cfg["lazy_getattr"] = rng.random() < 0.2
    std = None
    if rng.random() < 0.25:
        # a sub-package named like a standard-library package, holding compiled modules named like that package's own
        # sub-modules (pkg/json/decoder.so, pkg/os/path.so): `json.decoder`, `os.path`... are in sys.modules already
        std = rng.choice(sorted(STD_SUBMODULES))
        names = [n for n in names if n != f"{PK}.{std}"] + [f"{PK}.{std}", f"{PK}.{std}.m"]
    modules = {}
    for n in names:
        modules[n] = _gen_module(rng, n, cfg, [o for o in names if o != n])
    for n in (EXT, f"{EXT}.x", PRIV, EXT2, f"{EXT2}.y"):
        modules[n] = _gen_module(rng, n, {**cfg, "p_ext": 0.0}, [])
    # external packages can themselves pull in further external packages (chains of on-demand loads)
    for n in (EXT, f"{EXT}.x", PRIV):
        if rng.random() < cfg["p_ext"]:
            modules[n]["imports"].append(rng.choice([f"star:{EXT2}", f"from:{EXT2}"]))
    if cfg["pyc_top"] and rng.random() < 0.6:
        modules[rng.choice(names)]["imports"].append(f"from:{pyc_name}:fast")
    if cfg["lazy_pkg"] and rng.random() < 0.6:
        modules[rng.choice(names)]["imports"].append(f"from:{LAZY}:lazy_f")
    n_faults = rng.choice([0, 0, 1, 1, 2])
    for victim in rng.sample(list(modules), min(n_faults, len(modules))):
        modules[victim]["fault"] = rng.choice(FAULTS)
    compiled = []
    if cfg["compiled"]:
        for form in rng.sample(["so", "abi3", "pyd", "pyc"], rng.choice([1, 2, 3])):
            # bare names that collide with modules the interpreter has already imported are legal sub-module names
            name = rng.choice(["z" + form, "z" + form, "math", "types", "_json", "abc", "sys", "os"])
            compiled.append({"parent": rng.choice([PK, PK, EXT, EXT2] + ([f"{PK}.sub"] if f"{PK}.sub" in modules else [])), "name": name, "form": form})
    if std is not None:
        for child in rng.sample(STD_SUBMODULES[std], rng.choice([1, len(STD_SUBMODULES[std])])):
            compiled.append({"parent": f"{PK}.{std}", "name": child, "form": rng.choice(["so", "abi3", "pyd", "pyc"])})
    own_compiled = [c["name"] for c in compiled if c["parent"] == PK]
    if own_compiled and rng.random() < 0.5:
        # a dataclass whose base class lives in a compiled module of the package (which static analysis skips): the
        # dataclasses extension shipped with Griffe walks the bases to build __init__
        modules[rng.choice(names)]["dataclass_child"] = rng.choice(own_compiled)
    stubs = [n for n in names if cfg["stubs"] and rng.random() < 0.5]
    ops = []
    for _ in range(rng.choice([1, 2, 2, 3, 4])):
        inspect_mode = rng.choice(["static", "static", "static", "allow", "force"])
        op = {
            "api": rng.choice(["load", "load", "loader", "dump", "main", "check", "check_main"]),
            "base_ref": rng.choice([None, "v2"]),
            "target": rng.choice([PK, PK, PK, "path", "c15nothere", EXT, f"{PK}.a"] + ([pyc_name, f"{pyc_name}.fast", f"{pyc_name}.fast"] if cfg["pyc_top"] else []) + ([LAZY, LAZY, f"{LAZY}.sub"] if cfg["lazy_pkg"] else [])),
            "allow_inspection": inspect_mode != "static",
            "force_inspection": inspect_mode == "force",
            "resolve_aliases": rng.random() < 0.6,
            "resolve_external": rng.choice([True, False, None]),
            "resolve_implicit": rng.random() < 0.5,
            "submodules": rng.random() < 0.85,
            "find_stubs_package": rng.random() < 0.2,
            "store_source": rng.random() < 0.7,
            # a long-lived loader whose public option attributes are switched after construction
            "late_options": rng.random() < 0.25,
            "sp_missing": inspect_mode != "static" and rng.random() < 0.15,
        }
        ops.append(op)
    # a long-lived process does not clean sys.modules between two loads
    return {"world": {"modules": modules, "compiled": compiled, "stubs": stubs, "pkgutil_init": cfg["pkgutil_init"], "pyc_top": cfg["pyc_top"], "pyc_top_name": pyc_name, "pyc_getattr": cfg["pyc_top"] and rng.random() < 0.4, "lazy_pkg": cfg["lazy_pkg"], "lazy_getattr": cfg["lazy_getattr"], "getattr_mutates": cfg["lazy_getattr"] and rng.random() < 0.5, "pth_import": cfg["pth_import"]}, "ops": ops, "cfg": cfg, "keep_modules": rng.random() < 0.4,
            # the user (or the tool embedding Griffe) already has the package directory on sys.path
            "sp_on_sys_path": rng.random() < 0.3}


# ------------------------------------------------------------------------------------------------
# Rendering


def _fault_code(kind):
    return {
        "exception": "raise Exception('boom')",
        "importerror": "raise ImportError('boom')",
        "systemexit": "raise SystemExit(3)",
        "sysexit": "sys.exit(2)",
        "kbi": "raise KeyboardInterrupt()",
        "missingdep": "import c15missingdep",
        "recursion": "def _r():\n    return _r()\n_r()",
        "baseexc": "raise BaseException('base')",
    }[kind]


def render_world(world):
    files = {"sent/.keep": ""}
    mods = world["modules"]
    pkgs = {n for n in mods if any(o.startswith(n + ".") for o in mods)} | {PK, EXT, PRIV, EXT2}
    for n, m in mods.items():
        lines = ["import builtins, os, sys", f"open(os.path.join('<ROOT>', 'sp0', 'sent', {n!r}), 'w').close()"]
        fault = [_fault_code(m["fault"])] if m["fault"] else []
        if m["fault_pos"] == "before":
            lines += fault
        if m["append"]:
            lines.append(f"sys.path.append('/c15-appended/{n}')")
        if m["rebind"]:
            lines.append(f"sys.path = list(sys.path) + ['/c15-rebound/{n}']")
        if m["builtin"]:
            lines.append(f"builtins._c15_{n.replace('.', '_')} = 1")
        if m["fault_pos"] == "after":
            lines += fault
        for imp in m["imports"]:
            if imp.startswith("star:"):
                lines.append(f"from {imp[5:]} import *")
            elif imp.startswith("from:") and imp.count(":") == 2:
                _, src, what = imp.split(":")
                lines.append(f"from {src} import {what} as vendored_{what}")
            elif imp.startswith("from:"):
                lines.append(f"from {imp[5:]} import f as ext_f")
            else:
                lines.append(f"import {imp}")
        if world.get("pkgutil_init") and n in (PK, EXT):
            lines.append("__path__ = __import__('pkgutil').extend_path(__path__, __name__)")
        if m.get("all_call"):
            lines.append(f"__all__ = ['f', str(open('<ROOT>/sp0/sent/{n}.allcall', 'w').close() or 'K')]")
        lines += ["", "def f():", '    """doc"""', "    return 1", "", "class K:", "    x = 1", ""]
        if m.get("dataclass_child"):
            lines += ["from dataclasses import dataclass", f"from {PK}.{m['dataclass_child']} import Base", "", "@dataclass", "class D(Base):", "    y: int = 0", ""]
        if world.get("lazy_getattr") and n == PK:
            children = sorted(o[len(n) + 1 :] for o in mods if o.startswith(n + ".") and "." not in o[len(n) + 1 :])
            lines += ["import importlib", f"_lazy = {children!r}", "def __dir__():", "    return _lazy + ['f', 'K']", "def __getattr__(name):"]
            if world.get("getattr_mutates"):
                # the hook itself touches sys.path, whatever attribute is probed (`__wrapped__`, `__path__`...)
                lines += [f"    sys.path.append('/c15-appended/getattr-' + name)"]
            lines += ["    if name in _lazy:", "        return importlib.import_module(__name__ + '.' + name)", "    raise AttributeError(name)", ""]
        rel = "/".join(n.split(".")) + ("/__init__.py" if n in pkgs else ".py")
        if m.get("latin1"):
            files[rel] = ("# -*- coding: latin-1 -*-\n# caf\xe9\n" + "\n".join(lines) + "\n").replace("<ROOT>", "<ROOT>").encode("latin-1")
        else:
            files[rel] = "\n".join(lines) + "\n"
    if world.get("pth_import"):
        files["zz_hook.pth"] = f"# installed by some tool\nimport {PTH_HOOK}\n"
        files[f"{PTH_HOOK}.py"] = "\n".join(["import os", f"open(os.path.join('<ROOT>', 'sp0', 'sent', {PTH_HOOK!r}), 'w').close()", f"import {PK}", "MAPPING = {}", ""])
    if world.get("pyc_top"):
        # compiled to sourceless bytecode when the world is set up (the path of the sentinel is only known then)
        pyc_name = world.get("pyc_top_name", PYC_TOP)
        hook = ["", "def __getattr__(name):", "    import sys", "    sys.path.append('/c15-appended/pyc-getattr-' + name)", "    raise AttributeError(name)", ""] if world.get("pyc_getattr") else []
        files[f"{pyc_name}.py"] = "\n".join(["import os", f"open(os.path.join('<ROOT>', 'sp0', 'sent', {pyc_name!r}), 'w').close()", "", "def fast():", "    return 1", "", *hook])
    import importlib.machinery as mach

    for c in world["compiled"]:
        if c["parent"] not in mods:
            continue
        base = "/".join(c["parent"].split(".")) + "/" + c["name"]
        suffix = {"so": mach.EXTENSION_SUFFIXES[0], "abi3": ".abi3.so", "pyd": ".pyd", "pyc": ".pyc"}[c["form"]]
        files[base + suffix] = ""
    for n in world["stubs"]:
        if n in mods:
            rel = "/".join(n.split(".")) + ("/__init__.pyi" if n in pkgs else ".pyi")
            files[rel] = "def f() -> int: ...\n"
    return [files]


# ------------------------------------------------------------------------------------------------
# Execution


class _Seams:
    """Recording pass-throughs at the three places through which Griffe can reach the import system."""

    def __init__(self):
        self.calls = []

    def __enter__(self):
        import _griffe.agents.inspector as gi
        import _griffe.importer as gimp
        import _griffe.loader as gl

        self._mods = (gimp, gl, gi)
        self._orig = (gimp.import_module, gl.dynamic_import, gl.inspect, gi.dynamic_import)
        seams = self

        def wrap(name, fn):
            def w(*a, **k):
                what = str(a[0]) if a else ""
                # Griffe imports its own extensions through the same function: only the analysed code counts
                if what.split(".", 1)[0] in WORLD_TOPS:
                    seams.calls.append((name, what))
                return fn(*a, **k)

            return w

        gimp.import_module = wrap("import_module", self._orig[0])
        gl.dynamic_import = wrap("dynamic_import", self._orig[1])
        gl.inspect = wrap("inspect", self._orig[2])
        gi.dynamic_import = wrap("dynamic_import", self._orig[3])
        return self

    def __exit__(self, *a):
        gimp, gl, gi = self._mods
        gimp.import_module, gl.dynamic_import, gl.inspect, gi.dynamic_import = self._orig
        return False


def _do_op(griffe, op, sp, target):
    kw = {
        "allow_inspection": op["allow_inspection"],
        "force_inspection": op["force_inspection"],
        "find_stubs_package": op["find_stubs_package"],
    }
    res = {"resolve_aliases": op["resolve_aliases"], "resolve_external": op["resolve_external"], "resolve_implicit": op["resolve_implicit"]}
    if op.get("sp_missing") and isinstance(target, str):
        # the search path given to Griffe does not exist (a typo, a directory removed since): with inspection allowed the
        # package may still be importable through the interpreter's own path
        sp = sp + "-removed"
    if op["api"] == "load":
        return griffe.load(target, search_paths=[sp], submodules=op["submodules"], store_source=op["store_source"], try_relative_path=isinstance(target, str) and os.sep in target, **kw, **res)
    if op["api"] == "loader":
        if op.get("late_options"):
            # built with the opposite settings (and used once for a name that does not exist), then re-configured through
            # the documented attributes: what counts is what the loader says when the load is made
            loader = griffe.GriffeLoader(search_paths=[sp], allow_inspection=not op["allow_inspection"], force_inspection=False, store_source=op["store_source"])
            loader.allow_inspection = op["allow_inspection"]
            loader.force_inspection = op["force_inspection"]
        else:
            loader = griffe.GriffeLoader(search_paths=[sp], allow_inspection=op["allow_inspection"], force_inspection=op["force_inspection"], store_source=op["store_source"])
        top = loader.load(target, submodules=op["submodules"], find_stubs_package=op["find_stubs_package"], try_relative_path=False)
        if op["resolve_aliases"]:
            loader.resolve_aliases(implicit=op["resolve_implicit"], external=op["resolve_external"])
        return top
    if op["api"] == "dump":
        from _griffe.cli import dump

        out = io.StringIO()
        dump([str(target)], output=out, search_paths=[sp], full=op["store_source"], **kw, **res)
        return None
    if op["api"] in ("check", "check_main"):
        _do_check(griffe, op, sp)
        return None
    from _griffe.cli import main

    argv = ["dump", str(target), "-s", sp, "-o", os.devnull]
    if not op["allow_inspection"]:
        argv.append("-X")
    if op["force_inspection"]:
        argv.append("-x")
    if op["resolve_aliases"]:
        argv.append("-r")
    if op["resolve_implicit"]:
        argv.append("-I")
    if op["resolve_external"] is True:
        argv.append("-U")
    if op["find_stubs_package"]:
        argv.append("-B")
    main(argv)
    return None


_repo_cache = {}


def _ensure_repo(sp):
    """A Git repository holding the world's packages (two tagged commits), built on first use."""
    import shutil

    from simgriffe.props import c20

    root = os.path.dirname(sp)
    repo = os.path.join(root, "repo")
    if os.path.isdir(repo):
        return repo
    os.makedirs(repo)
    for name in os.listdir(sp):
        if name != "sent":
            src = os.path.join(sp, name)
            (shutil.copytree if os.path.isdir(src) else shutil.copy)(src, os.path.join(repo, name))
    c20._git(repo, "init", "-q", "-b", "main")
    c20._git(repo, "add", "-A", env=c20._env(1))
    c20._git(repo, "commit", "-q", "-m", "one", env=c20._env(1))
    c20._git(repo, "tag", "v1", env=c20._env(1))
    with open(os.path.join(repo, "README"), "w") as fh:
        fh.write("two\n")
    c20._git(repo, "add", "-A", env=c20._env(2))
    c20._git(repo, "commit", "-q", "-m", "two", env=c20._env(2))
    c20._git(repo, "tag", "v2", env=c20._env(2))
    return repo


def _do_check(griffe, op, sp):
    """`griffe check` on a repository that holds the hostile package: two (or one) load_git plus a working-tree load."""
    from simgriffe.props import c20

    repo = _ensure_repo(sp)
    old_cwd = os.getcwd()
    old_env = {k: os.environ.get(k) for k in c20.GIT_ENV}
    os.environ.update(c20.GIT_ENV)
    os.chdir(repo)
    try:
        if op["api"] == "check":
            from _griffe.cli import check

            return check(PK, "v1", base_ref=op.get("base_ref"), allow_inspection=op["allow_inspection"], force_inspection=op["force_inspection"], find_stubs_package=op["find_stubs_package"], color=False)
        from _griffe.cli import main

        argv = ["check", PK, "-a", "v1"]
        if op.get("base_ref"):
            argv += ["-b", op["base_ref"]]
        if not op["allow_inspection"]:
            argv.append("-X")
        if op["force_inspection"]:
            argv.append("-x")
        if op["find_stubs_package"]:
            argv.append("-B")
        return main(argv)
    finally:
        os.chdir(old_cwd)
        for k, v in old_env.items():
            if v is None:
                os.environ.pop(k, None)
            else:
                os.environ[k] = v
        try:
            import colorama

            colorama.deinit()
            ci = colorama.initialise
            ci.orig_stdout = ci.orig_stderr = ci.wrapped_stdout = ci.wrapped_stderr = None
        except Exception:  # noqa: BLE001
            pass


def _compiled_in_tree(top):
    found = []
    seen = set()

    def rec(obj):
        if id(obj) in seen:
            return
        seen.add(id(obj))
        for m in obj.members.values():
            if m.is_alias:
                continue
            if m.is_module:
                fp = m._filepath
                if isinstance(fp, Path) and fp.name.endswith(COMPILED_SUFFIXES):
                    found.append(str(fp.name))
                rec(m)

    if top is not None and not top.is_alias and top.is_module:
        rec(top)
    return found


def execute(plan, ctx):
    import griffe

    _install_audit()
    world = plan["world"]
    files = render_world(world)
    trace = []
    with World(files, tag="c15-") as w:
        sp = w.sp_dirs[0]
        sent_dir = os.path.join(sp, "sent")
        if world.get("pyc_top"):
            import py_compile

            pyc_name = world.get("pyc_top_name", PYC_TOP)
            if pyc_name in sys.modules and pyc_name != PYC_TOP:
                raise core.HarnessError(f"{pyc_name} is already imported in this process: not usable as a vendored name")
            WORLD_TOPS.add(pyc_name)
            src = os.path.join(sp, f"{pyc_name}.py")
            py_compile.compile(src, cfile=os.path.join(sp, f"{pyc_name}.pyc"), doraise=True)
            os.remove(src)
        _audit["root"] = w.root
        if world.get("lazy_pkg"):
            import importlib.util

            lazy_dir = os.path.join(w.root, "elsewhere", LAZY)
            os.makedirs(lazy_dir)
            body = "import os\nopen(os.path.join({!r}, {!r}), 'w').close()\n\ndef lazy_f():\n    return 1\n"
            with open(os.path.join(lazy_dir, "__init__.py"), "w") as fh:
                fh.write(body.format(sent_dir, LAZY) + "from . import sub\n")
            with open(os.path.join(lazy_dir, "sub.py"), "w") as fh:
                fh.write(body.format(sent_dir, LAZY + ".sub"))
            spec = importlib.util.spec_from_file_location(LAZY, os.path.join(lazy_dir, "__init__.py"), submodule_search_locations=[lazy_dir])
            spec.loader = importlib.util.LazyLoader(spec.loader)
            lazy_module = importlib.util.module_from_spec(spec)
            sys.modules[LAZY] = lazy_module
            spec.loader.exec_module(lazy_module)  # lazy: nothing runs until an attribute that is not there yet is read
            ctx.fault("lazily-imported-package-in-sys-modules")
        import tempfile

        old_tempdir = tempfile.tempdir
        os.makedirs(os.path.join(w.root, "tmp"), exist_ok=True)
        tempfile.tempdir = os.path.join(w.root, "tmp")  # temporary Git worktrees (check ops) live under the world root
        if plan.get("sp_on_sys_path"):
            sys.path.insert(0, sp)
        orig_path_obj = sys.path
        orig_path = list(sys.path)
        orig_cwd = os.getcwd()
        try:
            for oi, op in enumerate(plan["ops"]):
                ctx.steps += 1
                static = not (op["allow_inspection"] or op["force_inspection"])
                target = op["target"]
                if target == "path":
                    target = Path(sp, PK)
                exists = isinstance(target, Path) or target in (PK, EXT)  # a dotted target also needs submodules=True
                judged_missing = target == "c15nothere"
                rec = {"import": [], "exec": []}
                mods_before = {n for n in sys.modules if n.split(".", 1)[0] in WORLD_TOPS}
                outcome = "ok"
                top = None
                stderr, stdout = sys.stderr, sys.stdout
                with _Seams() as seams:
                    _audit["rec"] = rec
                    sys.stderr = io.StringIO()
                    sys.stdout = io.StringIO()
                    try:
                        top = _do_op(griffe, op, sp, target)
                    except BaseException as e:  # noqa: BLE001 - analysed code may raise anything
                        outcome = type(e).__name__
                        exc = e
                    finally:
                        _audit["rec"] = None
                        sys.stderr, sys.stdout = stderr, stdout
                mode = "static" if static else ("force" if op["force_inspection"] else "allow")
                ctx.log("op", (oi, op["api"], str(op["target"]), mode, outcome, len(seams.calls), len(rec["import"]), len(rec["exec"])))
                trace.append((op["api"], mode, outcome))
                tags = [mode, op["api"]]
                # -- every op, whatever its outcome: the import path is exactly as it was
                if sys.path is not orig_path_obj:
                    ctx.fail("P-path-rebound", f"after op {oi} ({op['api']}, {mode}, outcome {outcome}) sys.path is a different list object: {[p for p in sys.path if p not in orig_path][:3]}", tags=tags)
                elif sys.path != orig_path:
                    ctx.fail("P-path-mutated", f"after op {oi} ({op['api']}, {mode}, outcome {outcome}) sys.path contents changed: +{[p for p in sys.path if p not in orig_path][:3]} -{[p for p in orig_path if p not in sys.path][:3]}", tags=tags)
                if os.getcwd() != orig_cwd:
                    ctx.fail("P-cwd", f"after op {oi} the working directory changed to {os.getcwd()}", tags=tags)
                sentinels = sorted(n for n in os.listdir(sent_dir) if n != ".keep")
                new_mods = sorted({n for n in sys.modules if n.split(".", 1)[0] in WORLD_TOPS} - mods_before)
                if static:
                    # -- inspection excluded: nothing of the package may run or enter the interpreter
                    if rec["import"]:
                        ctx.fail("S-import-event", f"static op {oi} ({op['api']}) raised import audit events for {sorted(set(rec['import']))[:4]}", tags=tags)
                    elif rec["exec"]:
                        ctx.fail("S-exec-event", f"static op {oi} ({op['api']}) executed code objects from {sorted({w.norm(x) for x in rec['exec']})[:3]}", tags=tags)
                    elif seams.calls:
                        ctx.fail("S-import-seam", f"static op {oi} ({op['api']}) reached the import system: {seams.calls[:3]}", tags=tags)
                    elif sentinels:
                        ctx.fail("S-side-effect", f"static op {oi} ({op['api']}): module bodies ran: {sentinels[:4]}", tags=tags)
                    elif new_mods:
                        ctx.fail("S-sys-modules", f"static op {oi} ({op['api']}): sys.modules gained {new_mods[:4]}", tags=tags)
                    elif _compiled_in_tree(top):
                        ctx.fail("S-compiled-loaded", f"static op {oi} ({op['api']}): compiled modules in the tree: {_compiled_in_tree(top)}", tags=tags)
                    elif judged_missing and op["api"] in ("load", "loader") and outcome != "ModuleNotFoundError":
                        ctx.fail("S-missing-package", f"static op {oi} ({op['api']}) on a package that does not exist ended with {outcome}, expected ModuleNotFoundError", tags=tags)
                    elif exists and op["api"] in ("load", "loader") and outcome != "ok" and not _world_has_static_obstacle(world, op):
                        ctx.fail("S-static-load-failed", f"static op {oi} ({op['api']}) on an existing package raised {outcome}: {str(exc)[:200]}", tags=tags)
                else:
                    ctx.nontrivial = True
                    if sentinels:
                        ctx.probe("inspected-code-ran")
                    if outcome != "ok":
                        ctx.fault("inspected-load-" + outcome)
                    fired = [m["fault"] for n, m in world["modules"].items() if m["fault"] and n in sentinels]
                    for f in fired:
                        ctx.fault("module-fault-" + f)
                    if any(p.startswith("/c15-") for p in sys.path):
                        pass  # already reported above as P-path-*
                if ctx.failures:
                    break
                # reset the interpreter for the next op of the history
                for n in sentinels:
                    os.unlink(os.path.join(sent_dir, n))
                if not plan.get("keep_modules"):
                    purge_modules(WORLD_TOPS)
                for attr in [a for a in vars(builtins) if a.startswith("_c15_")]:
                    delattr(builtins, attr)
        finally:
            _audit["rec"] = None
            _audit["root"] = None
            tempfile.tempdir = old_tempdir
            sys.path = orig_path_obj
            orig_path_obj[:] = [p_ for p_ in orig_path if not (plan.get("sp_on_sys_path") and p_ == sp)]
            os.chdir(orig_cwd)
            purge_modules(WORLD_TOPS)
            for extra in PYC_TOP_NAMES:
                if extra != PYC_TOP:
                    WORLD_TOPS.discard(extra)
            for attr in [a for a in vars(builtins) if a.startswith("_c15_")]:
                delattr(builtins, attr)
            for key in list(sys.path_importer_cache):
                if key.startswith(w.root):
                    del sys.path_importer_cache[key]
    if any(t[1] == "static" for t in trace):
        ctx.nontrivial = True
    ctx.cover.append((tuple(trace), core.hash_key(sorted((n, m["fault"], m["fault_pos"], m["append"], m["rebind"]) for n, m in world["modules"].items()))))


def _world_has_static_obstacle(world, op):
    # generated sources are always syntactically valid; only a non-UTF-8 top-level __init__ makes a static load fail
    top = str(op["target"]).split(".")[0] if not isinstance(op["target"], Path) and op["target"] != "path" else PK
    return bool(world["modules"].get(top, {}).get("latin1"))


def shrink_candidates(plan):
    ops = plan["ops"]
    for red in core.list_reductions(ops):
        if red:
            yield {**plan, "ops": red}
    world = plan["world"]
    mods = world["modules"]
    for n in list(mods):
        if n in (PK, EXT, PRIV, EXT2, f"{EXT}.x", f"{EXT2}.y") or any(o.startswith(n + ".") for o in mods):
            continue
        new = {k: {**v, "imports": [i for i in v["imports"] if i != n]} for k, v in mods.items() if k != n}
        yield {**plan, "world": {**world, "modules": new}}
    for n, m in mods.items():
        for field, simple in (("fault", None), ("append", False), ("rebind", False), ("builtin", False)):
            if m[field] not in (simple,):
                yield {**plan, "world": {**world, "modules": {**mods, n: {**m, field: simple}}}}
        if m["imports"]:
            yield {**plan, "world": {**world, "modules": {**mods, n: {**m, "imports": []}}}}
    for red in core.list_reductions(world["compiled"]):
        yield {**plan, "world": {**world, "compiled": red}}
    if world["stubs"]:
        yield {**plan, "world": {**world, "stubs": []}}
    for i, op in enumerate(ops):
        for field, simple in (("api", "load"), ("resolve_aliases", False), ("find_stubs_package", False), ("submodules", True), ("resolve_external", None), ("target", PK)):
            if op[field] != simple:
                yield {**plan, "ops": ops[:i] + [{**op, field: simple}] + ops[i + 1 :]}


def sample_view(plan):
    files = render_world(plan["world"])[0]
    return {"seed": plan["seed"], "files": {k: v[:350] for k, v in list(files.items())[:5]}, "ops": plan["ops"][:4]}


class _Prop:
    ID = "C15"
    TIERS = {
        "quick": {"runs": 4_000, "wall": 80, "det_n": 120, "shrink_s": 40},
        "thorough": {"runs": 300_000, "wall": 1100, "det_n": 800, "shrink_s": 120},
    }
    OPTS = {"chunk": 80, "chunk_wall": 300}
    REPLAY_IN_PARENT = False
    RULE = (
        "one run = one generated package (1-6 modules, optional sub-package, an external and a private-sibling "
        "package, zero-byte .so/.abi3.so/.pyd/.pyc modules, optional stubs) in which every module body writes a "
        "sentinel file and may append to / rebind sys.path, set a builtins attribute and fail in one of 8 ways "
        "before or after that; and one history of 1-4 loads in the same interpreter through load / GriffeLoader / "
        "dump() / main(['dump',...]) with random option combinations (static, inspection allowed, inspection "
        "forced; resolve_aliases x external x implicit; by name, by path, missing package). Static ops are checked "
        "with audit events, import seams, sentinels, sys.modules and the tree; every op is checked for sys.path "
        "identity+contents and cwd. Non-trivial = every run (each contains at least one judged op); distinct = "
        "distinct (api/mode/outcome trace, world fault layout). Also drawn: sub-module names that collide with imported stdlib modules, chains of external packages, compiled modules in any package, `check` / `griffe check` operations over a Git repository built from the package (with and without base_ref), histories that keep sys.modules between operations. Round t/u: dataclasses with a base in a compiled module, __getattr__ hooks that touch sys.path, search paths that do not exist. Round s: a lazily imported package (LazyLoader) in sys.modules outside the search path; PEP 562 lazy packages whose sub-modules first run during member inspection. Round r: a sourceless top-level module named like a standard-library accelerator this process never imports (_sqlite3, _tkinter...), imported by package modules. Round j/k: latin-1 encoded sources with a coding cookie; loaders built with the opposite inspection settings and re-configured through their public attributes before the load."
    )
    COMPONENTS = {
        "real": ["_griffe.loader", "_griffe.importer (sys_path, dynamic_import)", "_griffe.agents.inspector", "_griffe.finder", "_griffe.cli (dump, main)", "CPython import system executing the generated hostile modules"],
        "stubbed": [],
        "seams": ["sys.addaudithook (import/exec events)", "recording wrappers on _griffe.importer.import_module, _griffe.loader.dynamic_import, _griffe.loader.inspect, _griffe.agents.inspector.dynamic_import", "sentinel directory on tmpfs"],
    }
    ASSUMPTIONS = [
        "which exception type a failed inspected load raises is logged, not judged: the property only promises restoration",
        "sampling, not enumeration",
    ]

    generate = staticmethod(generate)
    execute = staticmethod(execute)
    shrink_candidates = staticmethod(shrink_candidates)
    sample_view = staticmethod(sample_view)


PROP = _Prop()
