"""C14 - Module discovery matches the import system, independent of directory-listing order and request form.

World: generated file trees over 1-3 search paths (regular / namespace / pkgutil-style packages, modules, stubs,
extension and bytecode file names, __pycache__, noise files, dotted names, .pth additions).
Schedule: the order in which every directory lists its entries (ListingSeam) x the way the package is requested.
Oracle: CPython's own finder (oracles/cpython_finder.py, no code executed) + equality of the normalised tree across
all schedules and request forms of one world.
"""

from __future__ import annotations

import os
from pathlib import Path

from simgriffe import core
from simgriffe.oracles import cpython_finder as cpy
from simgriffe.seams import ListingSeam, World

EXTS = list(cpy.EXT_SUFFIXES)  # e.g. .cpython-312-x86_64-linux-gnu.so, .abi3.so, .so
PYC_TAG = f".{__import__('sys').implementation.cache_tag}.pyc"
TOP_NAMES = ["pkg", "ns"]
SUB_NAMES = ["a", "b", "_p", "ñ"]
# Names the *inspector* refuses on purpose (debugger internals): as sources or packages they are ordinary modules.
ODD_SUB_NAMES = ["debugpy_bridge", "_pydev_tools"]
PKGUTIL_INIT = "__path__ = __import__('pkgutil').extend_path(__path__, __name__)\n"
PKGRES_INIT = "__import__('pkg_resources').declare_namespace(__name__)\n"
# the spellings found in the wild: one-liners, with a leading docstring/comment, and the try/except idiom documented
# by setuptools (indented declarations)
PKG_STYLE_INITS = [
    PKGUTIL_INIT,
    PKGRES_INIT,
    '"""Namespace package."""\n# declared below\n' + PKGUTIL_INIT,
    "try:\n    __import__('pkg_resources').declare_namespace(__name__)\nexcept ImportError:\n    __path__ = __import__('pkgutil').extend_path(__path__, __name__)\n",
    "if True:\n    __path__ = __import__('pkgutil').extend_path(__path__, __name__)\n",
    # the declaration below a long licence header (scale: `<PAD:n>` is expanded when the file is written)
    '"""Namespace package."""\n<PAD:1500>\n' + PKGUTIL_INIT,
    "<PAD:9000>\n" + PKGRES_INIT,
    "<PAD:70000>\n" + PKGUTIL_INIT,
]


# ------------------------------------------------------------------------------------------------
# Generation


def _body(kind, where):
    if kind == "py":
        return f"MARK = '{where}'\n\n\ndef f():\n    return None\n"
    if kind == "pyi":
        return f"STUB = '{where}'\n\n\ndef f() -> int: ...\n"
    return ""


def _gen_module_files(rng, files, sp, rel, name, cfg, forms=None):
    forms = forms or rng.choice(cfg["module_forms"])
    for form in forms:
        if form == "py":
            files[f"{rel}{name}.py"] = _body("py", f"sp{sp}/{rel}{name}.py")
        elif form == "pyi":
            files[f"{rel}{name}.pyi"] = _body("pyi", f"sp{sp}/{rel}{name}.pyi")
        elif form == "ext":
            files[f"{rel}{name}{rng.choice(EXTS)}"] = ""
        elif form == "pyc":
            files[f"{rel}{name}.pyc"] = ""


def _gen_dir(rng, files, sp, rel, name, cfg, depth, style):
    d = f"{rel}{name}/"
    if style == "regular":
        init_forms = rng.choice([["py"], ["py"], ["py", "pyi"]])
        memo = cfg.get("_memo")
        if memo is not None and "pyi" in init_forms:
            if (d, "stub") in memo:
                init_forms = ["py"]
            memo[(d, "stub")] = True
        ext_init = any("ext" in forms for forms in cfg["module_forms"]) and depth >= 2 and rng.random() < 0.15
        if ext_init:
            # a package whose __init__ is a compiled extension (what mypyc / Cython builds ship), with or without stubs
            init_forms = [f for f in init_forms if f != "py"]
            files[f"{d}__init__{rng.choice(EXTS)}"] = ""
        for form in init_forms:
            files[f"{d}__init__.{form}"] = _body(form, f"sp{sp}/{d}__init__.{form}")
    elif style == "pkgutil":
        files[f"{d}__init__.py"] = rng.choice(PKG_STYLE_INITS)
    elif style == "namespace":
        files[d.rstrip("/")] = None
    n_children = rng.choice([0, 1, 2, 2, 3])
    for child in rng.sample(SUB_NAMES, min(n_children, len(SUB_NAMES))):
        _gen_entry(rng, files, sp, d, child, cfg, depth + 1)
    if rng.random() < 0.06:
        odd = rng.choice(ODD_SUB_NAMES)
        if rng.random() < 0.5 or depth >= 3:
            files[f"{d}{odd}.py"] = _body("py", f"sp{sp}/{d}{odd}.py")
        else:
            files[f"{d}{odd}/__init__.py"] = _body("py", f"sp{sp}/{d}{odd}/__init__.py")
            files[f"{d}{odd}/a.py"] = _body("py", f"sp{sp}/{d}{odd}/a.py")
    if cfg.get("symlinks") and rng.random() < 0.5:
        # a sibling sub-package also reachable under a second name (compat -> impl): both names are importable
        subdirs = sorted({rel[len(d) :].split("/", 1)[0] for rel in files if rel.startswith(d) and "/" in rel[len(d) :] and f"{d}{rel[len(d):].split('/', 1)[0]}/__init__.py" in files})
        if subdirs:
            files[f"{d}compat"] = {"symlink": rng.choice(subdirs)}
    n_noise = rng.choice([1, 1, 2, 3]) if rng.random() < cfg["p_noise"] else 0
    for noise in rng.sample(["pycache", "txt", "dotted", "bak", "nonident", "dotdir", "dotdir2"], n_noise):
        if noise in ("dotdir", "dotdir2"):
            # directories whose names contain a dot (hidden directories, version directories) are never packages
            dn = rng.choice([".cache", ".git", "v1.0", "build.tmp"])
            files[f"{d}{dn}/{rng.choice(SUB_NAMES)}.py"] = _body("py", f"sp{sp}/{d}{dn}/x.py")
            if rng.random() < 0.4:
                files[f"{d}{dn}/__init__.py"] = _body("py", f"sp{sp}/{d}{dn}/__init__.py")
        elif noise == "pycache":
            files[f"{d}__pycache__/{rng.choice(SUB_NAMES)}{PYC_TAG}"] = ""
            if rng.random() < 0.4:
                files[f"{d}__pycache__/__init__{PYC_TAG}"] = ""
            if rng.random() < 0.5:
                files[f"{d}__pycache__/{rng.choice(SUB_NAMES)}.py"] = _body("py", f"sp{sp}/{d}__pycache__/x.py")
        elif noise == "txt":
            files[f"{d}README.txt"] = "hello\n"
        elif noise == "dotted":
            if rng.random() < 0.5:
                files[f"{d}{rng.choice(SUB_NAMES)}.x.py"] = _body("py", f"sp{sp}/{d}dotted")
            else:
                # a backup of a stub file: no module of any name for CPython, no stubs of `name` for a type checker
                files[f"{d}{rng.choice(SUB_NAMES)}.old.pyi"] = "STUB = 'stale backup'\n\n\ndef gone() -> int: ...\n"
        elif noise == "bak":
            files[f"{d}{rng.choice(SUB_NAMES)}.py.bak"] = "x = 1\n"
        else:
            # names no `import` statement can spell are still packages for importlib and pkgutil - with content
            ni = rng.choice(["not-ident", "2fa", "my-plugins"])
            files[f"{d}{ni}/__init__.py"] = _body("py", f"sp{sp}/{d}{ni}/__init__.py")
            if rng.random() < 0.7:
                files[f"{d}{ni}/a.py"] = _body("py", f"sp{sp}/{d}{ni}/a.py")
            if rng.random() < 0.3 and depth < 3:
                files[f"{d}{ni}/deep/__init__.py"] = _body("py", f"sp{sp}/{d}{ni}/deep/__init__.py")
                files[f"{d}{ni}/deep/b.py"] = _body("py", f"sp{sp}/{d}{ni}/deep/b.py")


def _gen_entry(rng, files, sp, rel, name, cfg, depth):
    shapes = ["module", "module", "regular", "regular"]
    if depth < 3:
        shapes += cfg["extra_shapes"]
    if depth >= 3:
        shapes = ["module"]
    shape = rng.choice(shapes)
    memo = cfg.get("_memo")
    if memo is not None:
        # conflict-free world: one name has one shape in every portion, and stubs in one portion only
        shape, forms = memo.setdefault(rel + name, (shape, rng.choice(cfg["module_forms"])))
        if shape == "module":
            if (rel + name, "stub") in memo:
                forms = [f for f in forms if f != "pyi"] or ["py"]
            if "pyi" in forms:
                memo[(rel + name, "stub")] = True
            _gen_module_files(rng, files, sp, rel, name, cfg, forms=forms)
            return
    if shape == "module":
        _gen_module_files(rng, files, sp, rel, name, cfg)
    elif shape == "conflict":
        _gen_module_files(rng, files, sp, rel, name, cfg)
        _gen_dir(rng, files, sp, rel, name, cfg, depth, rng.choice(["regular", "namespace"]))
    else:
        _gen_dir(rng, files, sp, rel, name, cfg, depth, shape)


def generate(rng, opts):
    cfg = {
        "module_forms": rng.choice(
            [
                [["py"]],
                [["py"], ["py", "pyi"], ["pyi"]],
                [["py"], ["py", "pyi"], ["pyi"]],
                [["py"], ["py", "pyi"], ["ext"], ["pyc"], ["pyi", "ext"]],
                [["py"], ["py", "pyi"], ["py", "ext"], ["ext"], ["py", "pyc"], ["pyc"], ["py", "pyi", "ext"]],
            ]
        ),
        "extra_shapes": rng.choice([[], [], ["namespace"], ["namespace"], ["namespace", "conflict"], ["conflict"]]),
        "p_noise": rng.choice([0.0, 0.3, 0.6]),
        "top_styles": rng.choice(
            [
                ["regular"],
                ["regular", "namespace"],
                ["namespace"],
                ["regular", "namespace", "pkgutil", "module"],
                ["namespace", "pkgutil"],
            ]
        ),
    }
    conflict_free = rng.random() < 0.6 or bool(opts.get("no_known"))
    if conflict_free:
        # no same-name conflicts (the known-finding triggers): these worlds must pass without any allowance
        cfg["module_forms"] = [[["py"]], [["py"], ["py", "pyi"], ["pyi"]], [["py"], ["py", "pyi"], ["ext"], ["pyc"]]][rng.randrange(3)]
        cfg["extra_shapes"] = [s for s in cfg["extra_shapes"] if s != "conflict"]
        cfg["_memo"] = {}
    cfg["top_conflict"] = rng.random() < 0.3
    cfg["stubs_pkg"] = rng.random() < 0.15
    cfg["symlinks"] = rng.random() < 0.2
    two_pth = rng.random() < 0.08
    n_sp = rng.choice([3, 4, 4]) if two_pth else rng.choice([1, 2, 2, 3])
    dirs = []
    tops = rng.sample(TOP_NAMES, rng.choice([1, 1, 2]))
    # a pkgutil/pkg_resources-style namespace only works when every portion declares it: keep that consistent
    pkgutil_names = {top for top in tops if "pkgutil" in cfg["top_styles"] and rng.random() < 0.5}
    for sp in range(n_sp):
        files: dict = {}
        for top in tops:
            if sp > 0 and rng.random() < 0.25:
                r = rng.random()
                if r < 0.15:
                    # a plain *file* named like the package (no suffix): not a namespace portion, not a module
                    files[top] = "not a directory\n"
                elif r > 0.9:
                    # a *directory* named like a module file of that name
                    files[f"{top}.py/README.txt"] = "a directory\n"
                elif r < 0.3 and top not in pkgutil_names:
                    # a directory that only holds stubs for the package (a `typings/` directory put on the search
                    # path): for CPython a namespace portion at most, so a regular package elsewhere is the package
                    files[f"{top}/__init__.pyi"] = _body("pyi", f"sp{sp}/{top}/__init__.pyi")
                    if rng.random() < 0.5:
                        files[f"{top}/{rng.choice(SUB_NAMES)}.pyi"] = _body("pyi", f"sp{sp}/{top}/x.pyi")
                continue
            style = "pkgutil" if top in pkgutil_names else rng.choice([s for s in cfg["top_styles"] if s != "pkgutil"] or ["regular"])
            if style == "module":
                _gen_module_files(rng, files, sp, "", top, cfg, forms=rng.choice([["py"], ["py", "pyi"]]))
            else:
                _gen_dir(rng, files, sp, "", top, cfg, 1, style)
                if cfg["top_conflict"] and style != "pkgutil" and rng.random() < 0.5:
                    # a module file next to the directory of the same name, in the same search path:
                    # CPython: package > module > namespace directory (find_package has to agree)
                    files[f"{top}.py"] = _body("py", f"sp{sp}/{top}.py")
        if rng.random() < cfg["p_noise"]:
            files["README.txt"] = "top\n"
        if rng.random() < cfg["p_noise"] * 0.3:
            files["notes.pth/README.txt"] = "a directory named like a path configuration file\n"
        if cfg["stubs_pkg"] and rng.random() < 0.6:
            # a separate <top>-stubs package (PEP 561), used when the package is loaded with find_stubs_package=True
            for top in tops:
                if rng.random() < 0.12:
                    # not a stubs package at all, only named like one: a stray module, or a directory with runtime code
                    if rng.random() < 0.5:
                        files[f"{top}-stubs.py"] = _body("py", f"sp{sp}/{top}-stubs.py")
                    else:
                        files[f"{top}-stubs/__init__.py"] = _body("py", f"sp{sp}/{top}-stubs/__init__.py")
                    continue
                if rng.random() < 0.7 and f"{top}/__init__.py" in files:
                    files[f"{top}-stubs/__init__.pyi"] = _body("pyi", f"sp{sp}/{top}-stubs/__init__.pyi")
                    for child in rng.sample(SUB_NAMES, rng.choice([0, 1, 2])):
                        files[f"{top}-stubs/{child}.pyi"] = _body("pyi", f"sp{sp}/{top}-stubs/{child}.pyi")
        dirs.append(files)
    if rng.random() < 0.12:
        # sources saved with a UTF-8 byte order mark (Windows editors do that; CPython reads them like any other source)
        for files in dirs:
            for rel, content in list(files.items()):
                if isinstance(content, str) and rel.endswith((".py", ".pyi")) and content and rng.random() < 0.4:
                    files[rel] = "\ufeff" + content
        cfg["bom"] = True
    n_listed = n_sp
    if two_pth:
        # the last two directories are reachable only through .pth files, placed in any listed directory under any
        # name (one file or two, in one directory or two): CPython's site module reads the .pth files of a directory
        # in sorted order and the directories in search-path order, and appends what they name in that order
        n_listed = n_sp - 2
        nested = rng.random() < 0.3
        # (names as distribution tools write them: `dist.pth` next to `dist-nspkg.pth` - CPython sorts the full file names)
        paired = rng.sample(["dist.pth", "dist-nspkg.pth"], 2) if rng.random() < 0.35 and not nested else None
        pair_holder = rng.randrange(n_listed)
        for u in (n_sp - 2, n_sp - 1):
            holder = rng.randrange(n_listed)
            if nested and u == n_sp - 1:
                # the .pth file sits in a directory that is itself only known through a .pth file: CPython's site
                # module reads .pth files in site directories only, never in the directories they add
                holder = n_sp - 2
            fname = rng.choice(["a.pth", "extra.pth", "zz.pth", "B.pth", "_x.pth", "a-b.pth"])
            if paired:
                holder, fname = pair_holder, paired[u - (n_sp - 2)]
            prev = dirs[holder].get(fname, rng.choice(["", "# comment\n", "\n"]))
            # (hand-edited files carry trailing blanks, Windows line ends: `site` strips the right-hand side of a line)
            # (a line may be relative: `site` joins it with the directory of the .pth file - easy-install.pth has `./x.egg`)
            dirs[holder][fname] = prev + rng.choice([f"<SP{u}>"] * 5 + [f"<RELSP{u}>"]) + rng.choice(["", "", " ", " \t", "\r"]) + "\n" + rng.choice(["", "<ROOT>/does-not-exist\n"])
        cfg["pth_flavor"] = "plain-two"
    elif rng.random() < 0.2 and n_sp >= 2:
        # the last directory is reachable only through a .pth file in the first one
        n_listed = n_sp - 1
        last = n_sp - 1
        regular_tops = [t for t in tops if f"{t}/__init__.py" in dirs[last] and "extend_path" not in dirs[last][f"{t}/__init__.py"] and "declare_namespace" not in dirs[last][f"{t}/__init__.py"]]
        flavor = rng.choice(["plain", "plain", "editables", "scikit", "setuptools"]) if regular_tops else "plain"
        if flavor == "plain":
            lines = ["# comment", "", rng.choice([f"<SP{last}>"] * 5 + [f"<RELSP{last}>"]) + rng.choice(["", "", " ", "\t ", "\r"]), "<ROOT>/does-not-exist"]
            rng.shuffle(lines)
            dirs[0]["extra.pth"] = "\n".join(lines) + "\n"
        else:
            # the editable-install shapes the finder recognises: a .pth `import` line naming a generated module
            t = regular_tops[0]
            if flavor == "editables":
                mod = rng.choice(["__editables_proj", "_editable_impl_proj"])
                body = f"from editables.redirector import RedirectingFinder as F\nF.install()\nF.map_module('{t}', '<SP{last}>/{t}/__init__.py')\n"
            elif flavor == "scikit":
                mod = "_proj_editable"
                body = f"# generated\ninstall({{'{t}': '<SP{last}>/{t}/__init__.py'}}, {{}}, None, False, True)\n"
            else:
                mod = "__editable___proj_finder"
                body = f"MAPPING: dict[str, str] = {{'{t}': '<SP{last}>/{t}'}}\nNAMESPACES = {{}}\n"
            dirs[0][f"{mod}.py"] = body
            dirs[0]["__editable__.proj.pth"] = f"import {mod}\n"
            if rng.random() < 0.4:
                # a plain directory line above the import line, naming one more directory that provides the package:
                # `site` handles every line, the directory comes first on the path
                dirs.append({f"{t}/__init__.py": _body("py", f"sp{len(dirs)}/{t}/__init__.py"), f"{t}/only_here.py": _body("py", f"sp{len(dirs)}/{t}/only_here.py")})
                dirs[0]["__editable__.proj.pth"] = f"<SP{len(dirs) - 1}>\nimport {mod}\n"
        cfg["pth_flavor"] = flavor
    modes = [{"mode": "sorted"}, {"mode": "reversed"}] + [{"mode": "hash", "key": rng.randrange(1 << 30)} for _ in range(4)]
    schedules = [modes[0]] + rng.sample(modes[1:], rng.choice([2, 3, 4]))
    loads = []
    target = rng.choice(tops)
    if rng.random() < 0.06:
        # the requested package is a symbolic link to a package directory of the same search path (`lnk -> pkg`)
        holders = [i for i in range(n_listed) if any(rel.startswith(target + "/") for rel in dirs[i])]
        if holders:
            dirs[holders[0]]["lnk"] = {"symlink": target}
            target = "lnk"
            cfg["top_symlink"] = True
    for sched in schedules:
        forms = ["name"] + rng.sample(["path", "strpath", "relstr"], rng.choice([0, 1, 1, 2]))
        if any(target in files and isinstance(files[target], str) for files in dirs):
            forms.append("cwdfile")
        for form in forms:
            loads.append({"schedule": sched, "form": form})
    outside = None
    if rng.random() < 0.2:
        # another checkout of the target package in a directory that is *not* on the search path (a user's working
        # copy next to an installed one); requested by its path from a loader that already served the installed one
        files = {}
        _gen_dir(rng, files, len(dirs), "", target, cfg, 1, "regular")
        dirs.append(files)
        outside = {"idx": len(dirs) - 1, "first": rng.choice(["name", "name", "path", "none"]), "form": rng.choice(["path", "strpath"]), "schedule": rng.choice(schedules)}
    cfg.pop("_memo", None)
    cfg["conflict_free"] = conflict_free
    # now and then the no-exec oracle is itself checked against a real import in a pristine interpreter
    cfg["crosscheck_oracle"] = rng.random() < 0.015
    # the order of the search paths is independent of how their directories are named
    sp_order = list(range(n_listed))
    if rng.random() < 0.5:
        rng.shuffle(sp_order)
    nest = None
    if n_listed >= 2 and "pth_flavor" not in cfg and rng.random() < 0.15:
        # nested search paths (a project root and its `src` directory are both on the path)
        child, parent = rng.sample(range(n_listed), 2)
        nest = {"child": child, "parent": parent, "sub": rng.choice(["src", "src", "lib/py"])}
    return {
        "nest": nest,
        # entries of the search path that do not exist, are plain files, or appear twice are legal (sys.path has them)
        "odd_paths": rng.sample(["missing", "dup", "file"], rng.choice([0, 0, 0, 1, 2])),
        # a long-lived loader that already served another request (cached directory listings, inserted search paths)
        "reuse_loader": rng.random() < 0.3,
        # search-path directories are named by the user: one name may be a string prefix of another, or hold a space
        "sp_names": rng.sample(["lib", "lib2", "src", "src-extra", "sp1", "sp10", "site packages", "x", "libs #2", "a#c"], 3) if rng.random() < 0.5 else None,
        "other_top": rng.choice(TOP_NAMES + ["nothing_here", "<same>", "<same>"]),
        "sp_order": sp_order,
        "world": {"dirs": dirs, "n_listed": n_listed},
        "outside": outside,
        "target": target,
        "inspection": rng.random() < 0.35,
        "loads": loads,
        "cfg": cfg,
    }


# ------------------------------------------------------------------------------------------------
# Normalisation of the loaded tree


def _norm_path(w, p):
    return w.norm(str(p))


def norm_tree(w, top):
    out = {}

    def rec(mod):
        fp = mod._filepath
        if isinstance(fp, list):
            file = sorted(_norm_path(w, p) for p in fp)
        else:
            file = _norm_path(w, fp) if fp is not None else None
        members = {}
        for name, m in mod.members.items():
            if m.is_alias:
                members[name] = ("alias", m.target_path)
            elif m.is_module:
                members[name] = ("module",)
            elif m.is_attribute:
                members[name] = ("attribute", str(m.value) if m.value is not None else None, m.runtime)
            else:
                members[name] = (m.kind.value, m.runtime)
        out[mod.path] = {
            "file": file,
            "flags": (mod.is_package, mod.is_subpackage, mod.is_namespace_package, mod.is_namespace_subpackage),
            "members": dict(sorted(members.items())),
        }
        for m in mod.members.values():
            if not m.is_alias and m.is_module:
                rec(m)

    rec(top)
    return out


# ------------------------------------------------------------------------------------------------
# Oracle comparison


def _expected_flags(found, dotted):
    top = "." not in dotted
    if found.kind in ("namespace", "pkgns"):
        return (False, False, top, not top)
    if found.kind == "package":
        return (top, not top, False, False)
    return (False, False, False, False)


def compare_with_cpython(ctx, w, tree, target, search_paths, inspection, dirs):
    imp = cpy.importable_tree(target, search_paths)
    walk = cpy.walker_tree(target, search_paths)
    ctx.probe("oracle-importable-names", len(imp))
    # With inspection disallowed a package whose __init__ is a compiled extension cannot be analysed at all: neither
    # it nor anything below it is judged then (the static loader skips compiled modules, see C15).
    unloadable = set()
    if not inspection:
        unloadable = {d for d, f in imp.items() if f is not None and f.kind == "package" and f.loader in ("ext", "bytecode")}

    def _below_unloadable(dotted):
        return any(dotted == u or dotted.startswith(u + ".") for u in unloadable)

    # (L) every module Griffe loaded is what CPython would import at that name, or is stubs
    for dotted, node in tree.items():
        if _below_unloadable(dotted):
            ctx.probe("below-compiled-package-static")
            continue
        found = imp.get(dotted)
        file = node["file"]
        tags = conflict_tags(dirs, dotted)
        if isinstance(file, list):
            if found is None or found.dirs is None:
                return ctx.fail("L-namespace", f"{dotted}: loaded as namespace package {file} but CPython finds {found.as_tuple() if found else None}", tags=tags)
            exp_dirs = sorted(w.norm(d) for d in found.dirs)
            if found.kind == "package":
                return ctx.fail("L-namespace", f"{dotted}: loaded as namespace package but CPython finds the regular package {w.norm(found.origin)}", tags=tags)
            # a portion without any module file in it is only discovered lazily: subset is what can be demanded
            if not set(file) <= set(exp_dirs):
                return ctx.fail("L-portions", f"{dotted}: namespace portions {file} not among CPython's {exp_dirs}", tags=tags)
        else:
            if file is not None and file.endswith(".pyi"):
                if found is not None and found.origin and found.origin.endswith(".py"):
                    # CPython imports a source module at that name: the stubs only accompany it (a merged module
                    # keeps the runtime file), they cannot stand for it
                    t = list(tags)
                    if os.path.dirname(w.norm(found.origin)) != os.path.dirname(file):
                        t.append("other-portion")
                    return ctx.fail("L-stubs-instead-of-source", f"{dotted}: only the stubs {file} were loaded, CPython imports {w.norm(found.origin)}", tags=t)
                ctx.probe("stub-only-module")
                continue  # stub-only module (or stubs standing in for a compiled module)
            if found is None:
                return ctx.fail("L-not-importable", f"{dotted}: loaded from {file} but CPython cannot import that name", tags=tags)
            origin = w.norm(found.origin) if found.origin else None
            if file != origin:
                if found.loader in ("ext", "bytecode") and not inspection and file is not None and file.endswith(".py"):
                    # static analysis cannot load the compiled file CPython would pick: a source of that name stands in
                    ctx.probe("source-fallback-for-compiled")
                else:
                    t = list(tags)
                    if found.loader in ("ext", "bytecode") or (file or "").endswith((".so", ".pyc")):
                        t.append("compiled-vs-source")
                    if origin and file and os.path.dirname(origin) != os.path.dirname(file):
                        t.append("other-portion")
                    return ctx.fail("L-wrong-file", f"{dotted}: loaded from {file}, CPython imports {origin}", tags=t)
        if found is not None and node["flags"] != _expected_flags(found, dotted):
            return ctx.fail("K-classification", f"{dotted}: flags (package, subpackage, namespace, namespace-sub) = {node['flags']}, files dictate {_expected_flags(found, dotted)} ({found.kind})", tags=tags)
    # (W) every module the package walker finds is loaded at the same dotted path
    for dotted, ispkg in walk.items():
        found = imp.get(dotted) or cpy.find(dotted, imp[dotted.rsplit(".", 1)[0]].dirs or [], search_paths) if "." in dotted and dotted.rsplit(".", 1)[0] in imp else imp.get(dotted)
        if dotted in tree:
            continue
        if _below_unloadable(dotted):
            ctx.probe("below-compiled-package-static")
            continue
        tags = conflict_tags(dirs, dotted)
        if found is not None and found.loader in ("ext", "bytecode") and not inspection:
            ctx.probe("compiled-skipped-static")
            continue
        if found is not None and found.loader in ("ext", "bytecode") and "." not in dotted:
            continue
        parent = dotted.rsplit(".", 1)[0]
        t = list(tags)
        if parent not in tree:
            t.append("parent-missing")
        return ctx.fail("W-missing", f"{dotted}: found by CPython's package walker ({found.as_tuple() if found else None}) but not loaded", tags=t)
    return None


# ------------------------------------------------------------------------------------------------
# Execution


_CROSSCHECK_SCRIPT = r"""
import sys, json, importlib, pkgutil
sps, target = json.loads(sys.argv[1]), sys.argv[2]
sys.path[:0] = sps
sys.dont_write_bytecode = True
out = {}
def walk(name):
    try:
        m = importlib.import_module(name)
    except BaseException as e:
        out[name] = ["ERR", type(e).__name__]
        return
    p = [str(x) for x in m.__path__] if hasattr(m, "__path__") else None
    out[name] = [getattr(m, "__file__", None), p]
    if p is not None:
        for info in pkgutil.iter_modules(p, name + "."):
            if info.name not in out:
                walk(info.name)
walk(target)
print(json.dumps(out))
"""


def crosscheck_oracle(ctx, w, target, search_paths):
    """Real `import` + pkgutil walk in `python -S -I`-like isolation vs. the no-exec oracle.  A disagreement is a
    defect of the harness (HarnessError), never a violation of the property."""
    import json
    import subprocess
    import sys

    p = subprocess.run([sys.executable, "-S", "-c", _CROSSCHECK_SCRIPT, json.dumps(search_paths), target], capture_output=True, text=True, timeout=60, env={"PATH": os.environ.get("PATH", ""), "PYTHONDONTWRITEBYTECODE": "1"})
    if p.returncode != 0:
        raise core.HarnessError(f"oracle cross-check interpreter failed: {p.stderr[-400:]}")
    real = json.loads(p.stdout.strip().splitlines()[-1])
    imp = cpy.importable_tree(target, search_paths)
    walk = cpy.walker_tree(target, search_paths)
    for name, (file, path) in real.items():
        found = imp.get(name)
        if file == "ERR":
            if found is not None and found.loader == "source" and "pkg_resources" not in open(found.origin).read():
                raise core.HarnessError(f"oracle cross-check: real import of {name} failed ({path}) but the oracle finds {found.as_tuple()}")
            continue
        if found is None:
            raise core.HarnessError(f"oracle cross-check: real import finds {name} at {file} but the oracle does not")
        if name not in walk and name != target:
            raise core.HarnessError(f"oracle cross-check: the real package walker yields {name} but the oracle's walker does not")
        if found.origin != file and not (found.origin is None and file is None):
            raise core.HarnessError(f"oracle cross-check: {name}: real import uses {file}, oracle says {found.origin}")
        if path is not None and found.dirs is not None and sorted(path) != sorted(found.dirs):
            raise core.HarnessError(f"oracle cross-check: {name}: real __path__ {path} != oracle {found.dirs}")
    missing = [n for n in walk if n not in real and imp.get(n) is not None and imp[n].loader == "source"]
    if missing and real.get(target, ["ERR"])[0] != "ERR":
        parents_ok = [n for n in missing if real.get(n.rsplit(".", 1)[0], ["ERR"])[0] != "ERR"]
        if parents_ok:
            raise core.HarnessError(f"oracle cross-check: the oracle's walker yields {parents_ok} but the real one does not")
    ctx.probe("oracle-crosschecked-against-real-import")


def _stub_inspect(module_name, filepath=None, parent=None, lines_collection=None, modules_collection=None, **kwargs):
    """Stub for the inspector: a zero-byte extension/bytecode file cannot be imported; return an empty module."""
    import griffe

    if filepath is None or str(filepath).endswith((".py", ".pyi")):
        raise ImportError(f"stub inspector: refusing {module_name} ({filepath})")
    return griffe.Module(module_name, filepath=filepath, parent=parent, lines_collection=lines_collection, modules_collection=modules_collection)


def conflict_tags(dirs, dotted):
    """Tags naming the same-name conflicts that involve `dotted` or one of its ancestors (computed from the plan)."""
    tags = set()
    parts = dotted.split(".")
    # a symlinked directory shows the files of its target under the link's name
    expanded = []
    for files in dirs:
        view = dict(files)
        for _ in range(3):  # links below links (`lnk -> ns`, `ns/compat -> sub`): expand until nothing new shows up
            before = len(view)
            for rel, content in list(view.items()):
                if isinstance(content, dict) and "symlink" in content:
                    base = rel.rsplit("/", 1)[0] + "/" if "/" in rel else ""
                    target = base + content["symlink"]
                    for r2, c2 in list(view.items()):
                        if r2.startswith(target + "/"):
                            view.setdefault(rel + r2[len(target) :], c2)
            if len(view) == before:
                break
        expanded.append(view)
    dirs = expanded
    for i in range(1, len(parts) + 1):
        key = "/".join(parts[:i])
        occ = []  # (search path index, kind)
        for sp, files in enumerate(dirs):
            for rel in files:
                if rel == key + ".py":
                    occ.append((sp, "py"))
                elif rel == key + ".pyi":
                    occ.append((sp, "pyi"))
                elif rel == key + ".pyc":
                    occ.append((sp, "pyc"))
                elif rel.startswith(key + ".") and "/" not in rel[len(key) :] and rel.endswith(".so"):
                    occ.append((sp, "ext"))
                elif rel == key or rel.startswith(key + "/"):
                    occ.append((sp, "dir"))
                    if rel == key + "/__init__.pyi":
                        occ.append((sp, "initpyi"))
                    if rel == key + "/__init__.py" or (rel.startswith(key + "/__init__.") and rel.endswith((".so", ".pyd")) and "/" not in rel[len(key) + 1 :]):
                        occ.append((sp, "initpy"))  # a compiled __init__ makes the directory a regular package too
        runtime_sps = {sp for sp, k in occ if k in ("py", "ext", "pyc")}
        if len(runtime_sps) > 1:
            tags.add("same-module-in-two-portions")
        for sp in {sp for sp, _ in occ}:
            kinds = {k for s2, k in occ if s2 == sp}
            if kinds & {"ext", "pyc"} and "py" in kinds:
                tags.add("compiled-next-to-source")
            if len(kinds & {"ext", "pyc"}) > 1 or sum(1 for s2, k in occ if s2 == sp and k == "ext") > 1:
                tags.add("two-compiled-files-same-name")
        dir_sps = {sp for sp, k in occ if k == "dir"}
        init_sps = {sp for sp, k in occ if k == "initpy"}
        if i > 1 and init_sps and dir_sps - init_sps:
            tags.add("regular-and-namespace-dir-same-name")
        stub_only_sps = {sp for sp, k in occ if k == "initpyi"} - init_sps
        if i == 1 and stub_only_sps and ({sp for sp, _ in occ} - stub_only_sps):
            # a top-level directory that holds only stubs (`__init__.pyi`) in one search path, anything of that name
            # (regular package, namespace portion, module) in another
            tags.add("top-level-stubs-only-directory")
        kinds = {k for _, k in occ}
        if kinds & {"py", "pyi", "ext", "pyc"} and "dir" in kinds:
            # top-level conflicts are settled by find_package (correctly); the known defect is about sub-modules
            tags.add("module-and-directory-same-name" if i > 1 else "top-level-module-and-directory")
        if sum(1 for _, k in occ if k in ("pyi", "initpyi")) > 1:
            tags.add("two-stub-files-for-one-module")
    if any(isinstance(c, str) and "<RELSP" in c for files in dirs for rel, c in files.items() if rel.endswith(".pth")):
        tags.add("relative-pth-line")
    return sorted(tags)


def _pth_additions(dirs, order, sp_dirs):
    """Directories CPython's `site.addsitedir` appends for the listed search paths, in its order: search paths in
    order, their .pth files in sorted order, lines in order (an `import x` line stands for what module x maps)."""
    import re

    out = []
    for i in order:
        files = dirs[i]
        for fname in sorted(f for f in files if "/" not in f and f.endswith(".pth") and not f.startswith(".")):
            text = files[fname] if isinstance(files[fname], str) else ""
            for line in text.splitlines():
                line = line.strip()
                src = line
                if line.startswith("import "):
                    body = files.get(line[len("import "):].strip() + ".py")
                    src = body if isinstance(body, str) else ""
                for k in re.findall(r"<(?:REL)?SP(\d+)>", src):
                    d = sp_dirs[int(k)] if int(k) < len(sp_dirs) else None
                    if d is not None and d not in out:
                        out.append(d)
    return out


def execute(plan, ctx):
    import _griffe.loader as gl
    import griffe

    world = plan["world"]
    tags = []
    if any(isinstance(c, str) and "<RELSP" in c for files in world["dirs"] for rel, c in files.items() if rel.endswith(".pth")):
        # a relative line in a .pth file (known finding C14-KF6: resolved against the working directory)
        tags.append("relative-pth-line")
    names = list(plan.get("sp_names") or [])
    names += [f"sp{i}" for i in range(len(names), len(world["dirs"]))]
    nest = plan.get("nest")
    if nest and max(nest["child"], nest["parent"]) < len(world["dirs"]) and nest["child"] != nest["parent"]:
        names[nest["child"]] = names[nest["parent"]] + "/" + nest["sub"]
        ctx.probe("nested-search-paths")
    with World(world["dirs"], tag="c14-", names=names) as w:
        order = [i for i in plan.get("sp_order", range(world["n_listed"])) if i < world["n_listed"]]
        order += [i for i in range(world["n_listed"]) if i not in order]
        sps = [w.sp_dirs[i] for i in order]
        for k, odd in enumerate(plan.get("odd_paths", [])):
            pos = (k * 7 + len(sps)) % (len(sps) + 1)
            if odd == "missing":
                sps.insert(pos, os.path.join(w.root, "does-not-exist"))
            elif odd == "dup":
                sps.insert(pos, sps[0])
            else:
                fpath = os.path.join(w.root, "a-file.txt")
                with open(fpath, "w") as fh:
                    fh.write("not a directory\n")
                sps.insert(pos, fpath)
        outside = plan.get("outside")
        outside_dir = w.sp_dirs[outside["idx"]] if outside and outside["idx"] < len(w.sp_dirs) else None
        oracle_sps = sps + [d for d in _pth_additions(world["dirs"], order, w.sp_dirs) if d not in sps and d != outside_dir]
        target = plan["target"]
        results = []
        old_cwd = os.getcwd()
        orig_inspect = gl.inspect
        try:
            if plan["inspection"]:
                gl.inspect = _stub_inspect
            for li, ld in enumerate(plan["loads"]):
                seam = ListingSeam(w.root, ld["schedule"], None)
                form = ld["form"]
                spec = target
                if form == "cwdfile":
                    # by name, with the default try_relative_path, from a directory holding a plain file of that name
                    holders = [sp for sp in sps if os.path.isfile(os.path.join(sp, target))]
                    if holders:
                        os.chdir(holders[0])
                        ctx.probe("request-by-name-next-to-a-plain-file-of-that-name")
                    else:
                        form = "name"
                if form in ("path", "strpath", "relstr"):
                    cand = [os.path.join(sp, target) for sp in sps if os.path.isdir(os.path.join(sp, target))]
                    if not cand:
                        form, spec = "name", target
                    elif form == "relstr":
                        # the user sits in the search path and names the directory relatively
                        os.chdir(os.path.dirname(cand[0]))
                        spec = target
                    else:
                        spec = Path(cand[0]) if form == "path" else cand[0]
                ctx.steps += 1
                outcome = None
                tree = None
                with seam.installed():
                    try:
                        if plan.get("reuse_loader") and li % 2 == 1:
                            loader = griffe.GriffeLoader(search_paths=sps, allow_inspection=plan["inspection"])
                            try:
                                other = plan.get("other_top", "nothing_here")
                                if other == "<same>":
                                    # the same package was requested before, without its sub-modules
                                    loader.load(spec, try_relative_path=form in ("strpath", "relstr", "cwdfile"), submodules=False, find_stubs_package=bool(plan["cfg"].get("stubs_pkg")))
                                    other = "nothing_here"
                                cand_other = [os.path.join(sp, other) for sp in sps if os.path.isdir(os.path.join(sp, other))]
                                loader.load(Path(cand_other[0]) if cand_other and form != "name" else other, try_relative_path=form in ("strpath", "relstr", "cwdfile"))
                            except (ImportError, griffe.LoadingError):
                                pass
                            top = loader.load(spec, try_relative_path=form in ("strpath", "relstr", "cwdfile"), find_stubs_package=bool(plan["cfg"].get("stubs_pkg")))
                            ctx.probe("loader-reused-for-second-package")
                        else:
                            top = griffe.load(
                                spec,
                                search_paths=sps,
                                allow_inspection=plan["inspection"],
                                try_relative_path=form in ("strpath", "relstr", "cwdfile"),
                                find_stubs_package=bool(plan["cfg"].get("stubs_pkg")),
                            )
                        tree = norm_tree(w, top)
                        outcome = "ok"
                    except (ModuleNotFoundError, griffe.LoadingError) as e:
                        outcome = type(e).__name__
                    except ImportError as e:
                        outcome = "ImportError" if plan["inspection"] else None
                        if outcome is None:
                            ctx.fail("T-totality", f"load({form}) raised ImportError with inspection disallowed: {w.norm(str(e))[:200]}", exc=e, tags=tags)
                            return
                    except Exception as e:  # noqa: BLE001
                        ctx.fail("T-totality", f"load({form}) raised {type(e).__name__}: {w.norm(str(e))[:200]} under {ld['schedule']}", exc=e, tags=tags)
                        return
                os.chdir(old_cwd)
                if seam.decisions:
                    ctx.nontrivial = True
                    ctx.probe("directory-listings-with-a-choice-of-order", seam.decisions)
                    ctx.probe("schedule-" + ld["schedule"].get("mode", "?"))
                ctx.probe("request-form-" + form)
                ctx.log("load", (li, repr(ld["schedule"]), form, outcome, seam.decisions, core.hash_key(tree)))
                results.append((ld, form, outcome, tree))
            # oracle on the first successful load (all loads are then required to be equal to it)
            if plan["cfg"].get("crosscheck_oracle"):
                crosscheck_oracle(ctx, w, target, oracle_sps)
            first_ok = next((r for r in results if r[2] == "ok"), None)
            if first_ok is not None:
                compare_with_cpython(ctx, w, first_ok[3], target, oracle_sps, plan["inspection"], world["dirs"])
                if ctx.failures:
                    return
            else:
                found = cpy.find(target, oracle_sps, oracle_sps)
                if found is not None and found.loader not in ("ext", "bytecode") and not (found.kind == "module" and found.origin and not found.origin.endswith(".py")):
                    ctx.fail("W-missing", f"{target}: CPython finds {found.as_tuple()[1:]} but load raised {results[0][2]}", tags=tags + ["top-level"])
                    return
            # order / request-form independence
            base = results[0]
            for r in results[1:]:
                if r[2] != base[2] or r[3] != base[3]:
                    diff = _first_diff(base[3], r[3]) if base[3] is not None and r[3] is not None else f"outcome {base[2]} vs {r[2]}"
                    tags = conflict_tags(world["dirs"], diff.split(" ", 1)[0].split(":")[0].rsplit(".", 1)[0] if base[3] is not None and r[3] is not None else target)
                    same_sched = r[0]["schedule"] == base[0]["schedule"]
                    inv = "F-request-form" if same_sched else "O-order"
                    if not same_sched and r[1] != base[1]:
                        # isolate: is there a load with the same form as base but another schedule that also differs?
                        inv = "O-order"
                    ctx.fail(inv, f"tree differs between load({base[1]}) under {base[0]['schedule']} and load({r[1]}) under {r[0]['schedule']}: {diff}", tags=tags)
                    return
            # a long-lived loader is then asked, by path, for the copy of the package that lies outside its search path:
            # that directory is put in front of the search path, and CPython with that path is the reference
            if outside_dir is not None and os.path.isdir(os.path.join(outside_dir, target)) and not ctx.failures:
                seam = ListingSeam(w.root, outside["schedule"], None)
                loader = griffe.GriffeLoader(search_paths=list(sps), allow_inspection=plan["inspection"])
                spec = os.path.join(outside_dir, target)
                spec = Path(spec) if outside["form"] == "path" else spec
                ctx.steps += 1
                with seam.installed():
                    try:
                        if outside["first"] != "none":
                            inside = [os.path.join(sp, target) for sp in sps if os.path.isdir(os.path.join(sp, target))]
                            try:
                                loader.load(Path(inside[0]) if outside["first"] == "path" and inside else target)
                            except (ImportError, griffe.LoadingError):
                                pass
                        top = loader.load(spec, try_relative_path=outside["form"] == "strpath")
                        tree2 = norm_tree(w, top)
                    except Exception as e:  # noqa: BLE001
                        ctx.fail("T-totality", f"load by path of a copy outside the search path raised {type(e).__name__}: {w.norm(str(e))[:200]}", exc=e, tags=tags)
                        return
                ctx.probe("copy-outside-search-path-loaded-by-path-after-" + outside["first"])
                ctx.log("outside", (outside["first"], outside["form"], core.hash_key(tree2)))
                compare_with_cpython(ctx, w, tree2, target, [outside_dir] + oracle_sps, plan["inspection"], world["dirs"])
                if ctx.failures:
                    return
        finally:
            gl.inspect = orig_inspect
            os.chdir(old_cwd)
            cpy.forget(w.root)
    n_mod = len(results[0][3]) if results and results[0][3] else 0
    ctx.probe("loads", len(results))
    ctx.probe("modules-in-tree", n_mod)
    ctx.cover.append((core.hash_key(results[0][3]) if results else 0, results[0][2] if results else None, len(plan["loads"])))


def _first_diff(a, b):
    for k in sorted(set(a) | set(b)):
        if k not in a:
            return f"{k}.<only-in-second>"
        if k not in b:
            return f"{k}.<only-in-first>"
        if a[k] != b[k]:
            for f in ("file", "flags", "members"):
                if a[k][f] != b[k][f]:
                    return f"{k}.<{f}>: {a[k][f]} != {b[k][f]}"
    return "?"


# ------------------------------------------------------------------------------------------------
# Shrinking


def shrink_candidates(plan):
    world = plan["world"]
    loads = plan["loads"]
    for red in core.list_reductions(loads):
        if red:
            yield {**plan, "loads": red}
    for i, ld in enumerate(loads):
        if ld["schedule"].get("mode") == "hash":
            for simple in ({"mode": "sorted"}, {"mode": "reversed"}):
                yield {**plan, "loads": loads[:i] + [{**ld, "schedule": simple}] + loads[i + 1 :]}
        if ld["form"] != "name":
            yield {**plan, "loads": loads[:i] + [{**ld, "form": "name"}] + loads[i + 1 :]}
    dirs = world["dirs"]
    if len(dirs) > 1 and world["n_listed"] == len(dirs):
        for i in range(len(dirs)):
            nd = dirs[:i] + dirs[i + 1 :]
            yield {**plan, "world": {"dirs": nd, "n_listed": len(nd)}, "sp_order": list(range(len(nd)))}
    for i, files in enumerate(dirs):
        keys = list(files)
        for red in core.list_reductions(keys):
            nf = {k: files[k] for k in red}
            yield {**plan, "world": {**world, "dirs": dirs[:i] + [nf] + dirs[i + 1 :]}}
    if plan["inspection"]:
        yield {**plan, "inspection": False}
    if plan.get("odd_paths"):
        yield {**plan, "odd_paths": []}
    if plan.get("reuse_loader"):
        yield {**plan, "reuse_loader": False}
    if plan.get("outside"):
        o = plan["outside"]
        yield {**plan, "outside": None, "world": {**world, "dirs": world["dirs"][: o["idx"]]}}
        if o["first"] != "none":
            yield {**plan, "outside": {**o, "first": "none"}}
    if plan.get("sp_names"):
        yield {**plan, "sp_names": None}
    if plan.get("nest"):
        yield {**plan, "nest": None}
    if plan.get("sp_order") and plan["sp_order"] != sorted(plan["sp_order"]):
        yield {**plan, "sp_order": sorted(plan["sp_order"])}


def sample_view(plan):
    return {
        "seed": plan["seed"],
        "target": plan["target"],
        "inspection": plan["inspection"],
        "search_paths": [sorted(d) for d in plan["world"]["dirs"]],
        "loads": [(repr(ld["schedule"]), ld["form"]) for ld in plan["loads"]],
    }


class _Prop:
    ID = "C14"
    TIERS = {
        "quick": {"runs": 12_000, "wall": 80, "det_n": 120, "shrink_s": 40},
        "thorough": {"runs": 300_000, "wall": 1100, "det_n": 800, "shrink_s": 120},
    }
    OPTS = {"chunk": 60, "chunk_wall": 300}
    REPLAY_IN_PARENT = True
    RULE = (
        "one run = one generated file tree over 1-3 search paths (regular, native-namespace and pkgutil/pkg_resources-"
        "style packages up to depth 3, modules as .py/.pyi/extension/bytecode file names and their same-name "
        "conflicts, __pycache__, noise and dotted files, optional .pth addition) loaded 3-12 times: 3-5 listing "
        "schedules (sorted, reversed, hashed permutations of every directory) x request by name / Path of the "
        "directory / string path. The first successful tree is compared with CPython's PathFinder/pkgutil view and "
        "all loads must give the same normalised tree. Non-trivial = some listing had a choice of order; distinct "
        "= distinct (tree hash, outcome, number of loads). Also drawn per world: the order of the search paths (independent of the directory names), user-style directory names for them (prefix-related names, a space), non-existent / duplicate / plain-file search-path entries, editable-install .pth shapes, <top>-stubs packages with find_stubs_package, a relative-string request form, reuse of a loader that already served another request, dotted and hidden directories, several spellings of pkgutil/pkg_resources namespace declarations; 1.5 % of worlds cross-check the oracle against a real import in a pristine interpreter. Round t: distribution-style .pth names, dotted stub backups, directories named pkg.py, plain lines around editable import lines, packages that are symbolic links, modules named like stubs packages. Round s: sources with a UTF-8 byte order mark, relative .pth lines, directories named *.pth, requests by name from a directory holding a plain file of that name. Round r: plain files named like the package, top-level directories holding only stubs, nested search paths (root and root/src), namespace declarations below licence headers of up to 70,000 characters. Round k: a second copy of the target package outside the search path, requested by its path from a loader that already served the installed copy (reference: CPython with that directory put in front)."
    )
    COMPONENTS = {
        "real": ["_griffe.finder", "_griffe.loader", "_griffe.agents.visitor", "_griffe.merger", "_griffe.models", "CPython importlib.machinery.PathFinder / pkgutil (oracle, unperturbed)", "real files on tmpfs"],
        "stubbed": ["inspector (only in runs with inspection allowed): returns an empty Module for extension/bytecode file names, because a zero-byte .so cannot be imported"],
        "seams": ["os.scandir/os.listdir order (ListingSeam)", "_griffe.loader.inspect (stub)"],
    }
    ASSUMPTIONS = [
        "CPython's finder of this interpreter is the authority; foreign-platform binaries are not generated",
        "with inspection disallowed a .py next to a same-name compiled file in the same directory is accepted as the module (static analysis cannot load the compiled one)",
        "sampling, not enumeration",
    ]

    generate = staticmethod(generate)
    execute = staticmethod(execute)
    shrink_candidates = staticmethod(shrink_candidates)
    sample_view = staticmethod(sample_view)


PROP = _Prop()
