"""Deterministic simulation with fault injection for mkdocstrings/griffe (see /verif/DESIGN.md)."""
