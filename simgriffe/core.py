"""simgriffe engine: seeds -> plans -> deterministic executions -> classification -> shrinking -> replay.

One integer decides everything: run *i* of a batch uses ``seed_i = (VERIF_SEED << 20) + i`` and
``plan = prop.generate(random.Random(seed_i))`` is a pure function of it.  ``prop.execute(plan, ctx)`` runs
the real Griffe code behind the seams and never touches a PRNG or a clock, so a replay file is a plan.
"""

from __future__ import annotations

import faulthandler
import hashlib
import json
import multiprocessing
import os
import random
import subprocess
import sys
import time
import traceback
from collections import Counter
from concurrent.futures import ProcessPoolExecutor, wait, FIRST_COMPLETED
from pathlib import Path

VERIF_DIR = Path(__file__).resolve().parent.parent
REPO_SRC = os.environ.get("VERIF_REPO_SRC", "/repo/src")
KNOWN_FINDINGS_FILE = VERIF_DIR / "known_findings.json"
# development runs against patched copies (tools/mutants.sh) must not overwrite the evidence of the real tree
EVIDENCE_DIR = Path(os.environ.get("VERIF_EVIDENCE_DIR") or VERIF_DIR / "evidence")
REPLAY_DIR = VERIF_DIR / "replays"

EXIT_OK, EXIT_VIOLATION, EXIT_HARNESS = 0, 1, 2


class HarnessError(Exception):
    """Something is wrong with the simulator itself.  Never reported as a VIOLATION."""


def assert_repo_under_test() -> str:
    import _griffe
    import griffe

    src = os.path.realpath(REPO_SRC)
    for mod in (_griffe, griffe):
        f = os.path.realpath(mod.__file__)
        if not f.startswith(src + os.sep):
            raise HarnessError(f"{mod.__name__} imported from {f}, expected under {src}")
    return src


# ------------------------------------------------------------------------------------------------
# Failures and signatures


def griffe_frames(exc: BaseException, limit: int = 3) -> list[str]:
    """Innermost function names of frames that lie in the code under test (names, not line numbers)."""
    src = os.path.realpath(REPO_SRC)
    names = []
    tb = exc.__traceback__
    while tb is not None:
        fn = os.path.realpath(tb.tb_frame.f_code.co_filename)
        if fn.startswith(src + os.sep):
            names.append(tb.tb_frame.f_code.co_name)
        tb = tb.tb_next
    return names[-limit:]


def failure(inv: str, msg: str, exc: BaseException | None = None, tags=(), where=None) -> dict:
    if where is None and isinstance(exc, RecursionError):
        # where exactly the stack overflows depends on the depth the operation started from: name the cycle instead
        # (the cycle that fills the stack - read from the middle of the traceback - not whatever ran at its tip)
        frames = griffe_frames(exc, limit=100000)
        body = frames[len(frames) // 4 : len(frames) // 2] if len(frames) >= 200 else frames[-60:]
        where = sorted(set(body))[:6]
    f = {
        "inv": inv,
        "exc": type(exc).__name__ if exc is not None else None,
        "where": list(where) if where is not None else (griffe_frames(exc) if exc is not None else []),
        "tags": sorted(set(tags)),
        "msg": msg[:600],
    }
    f["sig"] = signature(f)
    return f


def signature(f: dict) -> str:
    return "|".join([f["inv"], f["exc"] or "-", ">".join(f["where"]) or "-", ",".join(f["tags"]) or "-"])


def sig_class(f: dict) -> str:
    """What shrinking must preserve: invariant id and exception type (call path and tags may simplify)."""
    return f"{f['inv']}|{f['exc'] or '-'}"


class Ctx:
    """Per-run recorder: event log digest, failures, fault/probe counters, coverage keys."""

    def __init__(self, keep_log: bool = False):
        self._h = hashlib.sha256()
        self.n_events = 0
        self.events: list | None = [] if keep_log else None
        self.failures: list[dict] = []
        self.faults: Counter = Counter()
        self.probes: Counter = Counter()
        self.cover: list = []
        self.steps = 0
        self.nontrivial = False
        self.stop = False

    def log(self, kind: str, detail=None) -> None:
        line = repr((self.n_events, kind, detail))
        self._h.update(line.encode("utf8", "backslashreplace"))
        self.n_events += 1
        if self.events is not None:
            self.events.append(line)

    def fail(self, inv: str, msg: str, exc: BaseException | None = None, tags=(), where=None) -> dict:
        f = failure(inv, msg, exc, tags, where)
        self.failures.append(f)
        self.log("FAIL", f["sig"])
        return f

    def fault(self, kind: str) -> None:
        self.faults[kind] += 1
        self.nontrivial = True
        self.log("fault", kind)

    def probe(self, name: str, n: int = 1) -> None:
        self.probes[name] += n

    def digest(self) -> str:
        return self._h.hexdigest()


# ------------------------------------------------------------------------------------------------
# Known findings


def load_known_findings(prop_id: str) -> list[dict]:
    if not KNOWN_FINDINGS_FILE.exists():
        return []
    data = json.loads(KNOWN_FINDINGS_FILE.read_text())
    return [e for e in data.get("findings", []) if e["property"] == prop_id and e.get("status") == "known"]


def match_known(f: dict, known: list[dict]) -> dict | None:
    """An entry matches on the specific thing that fails: invariant, exception type, call-site names, tags."""
    for e in known:
        m = e["match"]
        if "inv" in m and m["inv"] != f["inv"]:
            continue
        if "inv_in" in m and f["inv"] not in m["inv_in"]:
            continue
        if "exc" in m and m["exc"] != f["exc"]:
            continue
        if "where_all" in m and not all(w in f["where"] for w in m["where_all"]):
            continue
        if "where_last" in m and (not f["where"] or f["where"][-1] != m["where_last"]):
            continue
        if "tags_all" in m and not all(t in f["tags"] for t in m["tags_all"]):
            continue
        if "tags_none" in m and any(t in f["tags"] for t in m["tags_none"]):
            continue
        return e
    return None


# ------------------------------------------------------------------------------------------------
# Running plans


def run_plan(prop, plan: dict, keep_log: bool = False) -> Ctx:
    ctx = Ctx(keep_log)
    prop.execute(plan, ctx)  # exceptions escaping here are harness errors by contract
    return ctx


def seed_for(batch_seed: int, i: int) -> int:
    return (batch_seed << 20) + i


def generate(prop, seed: int, opts: dict | None = None) -> dict:
    rng = random.Random(seed)
    plan = prop.generate(rng, {**(opts or {}), "_seed": seed})
    plan["seed"] = seed
    plan["property"] = prop.ID
    return plan


def quiet_logs():
    """Griffe logs expected load failures with logger.exception(); keep stderr for the simulator."""
    import logging

    lg = logging.getLogger("griffe")
    lg.handlers[:] = [logging.NullHandler()]
    lg.propagate = False
    lg.setLevel(logging.CRITICAL + 10)


def _worker_init():
    faulthandler.enable()
    sys.setrecursionlimit(1000)
    quiet_logs()


def _work(prop_id: str, seeds: list[int], opts: dict) -> dict:
    from simgriffe.props import get_prop

    prop = get_prop(prop_id)
    known = load_known_findings(prop_id)
    out = {
        "n": 0,
        "digests": [],
        "cover": set(),
        "nontrivial": 0,
        "faults": Counter(),
        "probes": Counter(),
        "known": Counter(),
        "unknown": [],
        "harness": [],
        "samples": [],
        "steps": 0,
        "events": 0,
    }
    deadline = opts.get("chunk_wall", 600)
    faulthandler.dump_traceback_later(deadline, exit=True)
    t0 = time.monotonic()
    try:
        for seed in seeds:
            try:
                plan = generate(prop, seed, opts.get("gen"))
                ctx = run_plan(prop, plan)
            except BaseException as e:  # noqa: BLE001
                if isinstance(e, KeyboardInterrupt) and not opts.get("catch_kbi", True):
                    raise
                out["harness"].append({"seed": seed, "tb": traceback.format_exc()[-3000:]})
                continue
            out["n"] += 1
            out["steps"] += ctx.steps
            out["events"] += ctx.n_events
            if opts.get("digests"):
                out["digests"].append((seed, ctx.digest()))
            if ctx.nontrivial:
                out["nontrivial"] += 1
                for key in ctx.cover:
                    out["cover"].add(hash_key(key))
            out["faults"].update(ctx.faults)
            out["probes"].update(ctx.probes)
            if len(out["samples"]) < 1 and ctx.nontrivial:
                out["samples"].append(prop.sample_view(plan))
            for f in ctx.failures:
                e = match_known(f, known)
                if e is not None:
                    out["known"][e["id"]] += 1
                else:
                    if len(out["unknown"]) < 5:
                        out["unknown"].append({"seed": seed, "plan": plan, "failure": f})
                    else:
                        out["unknown"].append({"seed": seed, "plan": None, "failure": f})
                    break  # later failures of the same run may be consequences
    finally:
        faulthandler.cancel_dump_traceback_later()
    out["wall"] = time.monotonic() - t0
    return out


def hash_key(key) -> int:
    return int.from_bytes(hashlib.blake2b(repr(key).encode(), digest_size=8).digest(), "big")


def run_batch(prop_id: str, batch_seed: int, n_runs: int, jobs: int, wall_cap: float, opts: dict, start: int = 0):
    """Run seeds [start, start+n_runs) over `jobs` forked workers; stop submitting when wall_cap is spent."""
    chunk = max(1, min(opts.get("chunk", 200), (n_runs + jobs * 4 - 1) // (jobs * 4)))
    seeds = [seed_for(batch_seed, i) for i in range(start, start + n_runs)]
    chunks = [seeds[i : i + chunk] for i in range(0, len(seeds), chunk)]
    total = _new_total()
    t0 = time.monotonic()
    ctx_mp = multiprocessing.get_context("fork")
    with ProcessPoolExecutor(max_workers=jobs, mp_context=ctx_mp, initializer=_worker_init) as pool:
        pending = set()
        it = iter(chunks)
        exhausted = False
        while True:
            while not exhausted and len(pending) < jobs * 2:
                if time.monotonic() - t0 > wall_cap:
                    exhausted = True
                    total["capped"] = True
                    break
                try:
                    c = next(it)
                except StopIteration:
                    exhausted = True
                    break
                pending.add(pool.submit(_work, prop_id, c, opts))
            if not pending:
                break
            done, pending = wait(pending, timeout=opts.get("chunk_wall", 600) + 30, return_when=FIRST_COMPLETED)
            if not done:
                for p in pending:
                    p.cancel()
                raise HarnessError("worker chunk hung (no completion within chunk wall timeout)")
            for fut in done:
                try:
                    r = fut.result()
                except Exception as e:  # BrokenProcessPool etc.
                    raise HarnessError(f"worker died: {e!r}") from e
                _merge(total, r)
            if len(total["unknown"]) >= opts.get("max_unknown", 40):
                for p in pending:
                    p.cancel()
                exhausted = True
    total["wall"] = time.monotonic() - t0
    return total


def _new_total():
    return {
        "n": 0,
        "digests": [],
        "cover": set(),
        "nontrivial": 0,
        "faults": Counter(),
        "probes": Counter(),
        "known": Counter(),
        "unknown": [],
        "harness": [],
        "samples": [],
        "steps": 0,
        "events": 0,
        "capped": False,
        "cpu": 0.0,
    }


def _merge(total, r):
    total["n"] += r["n"]
    total["digests"].extend(r["digests"])
    total["cover"] |= r["cover"]
    total["nontrivial"] += r["nontrivial"]
    total["faults"].update(r["faults"])
    total["probes"].update(r["probes"])
    total["known"].update(r["known"])
    total["unknown"].extend(r["unknown"])
    total["harness"].extend(r["harness"])
    if len(total["samples"]) < 3:
        total["samples"].extend(r["samples"][: 3 - len(total["samples"])])
    total["steps"] += r["steps"]
    total["events"] += r["events"]
    total["cpu"] += r.get("wall", 0.0)


# ------------------------------------------------------------------------------------------------
# Shrinking


def plan_size(plan) -> int:
    return len(json.dumps(plan, sort_keys=True, default=str))


def still_fails(prop, plan: dict, cls: str, known: list[dict]) -> dict | None:
    try:
        ctx = run_plan(prop, plan)
    except BaseException:  # noqa: BLE001 - a shrunk plan that breaks the harness is simply rejected
        return None
    for f in ctx.failures:
        if match_known(f, known) is not None:
            continue
        if sig_class(f) == cls:
            return f
        return None  # first unknown failure is a different one: do not drift
    return None


def shrink(prop, plan: dict, fail: dict, known: list[dict], budget_s: float = 60.0, max_exec: int = 4000):
    cls = sig_class(fail)
    best, best_fail = plan, fail
    t0 = time.monotonic()
    execs = 0
    improved = True
    while improved and time.monotonic() - t0 < budget_s and execs < max_exec:
        improved = False
        for cand in prop.shrink_candidates(best):
            if time.monotonic() - t0 > budget_s or execs >= max_exec:
                break
            if plan_size(cand) >= plan_size(best):
                continue
            execs += 1
            f = still_fails(prop, cand, cls, known)
            if f is not None:
                best, best_fail = cand, f
                improved = True
                break
    return best, best_fail, execs


def list_reductions(items: list):
    """ddmin-style candidates: drop halves, quarters, ..., single elements."""
    n = len(items)
    if n == 0:
        return
    size = n // 2
    while size >= 1:
        for i in range(0, n, size):
            yield items[:i] + items[i + size :]
        if size == 1:
            break
        size //= 2


def _shrink_task(prop_id: str, plan: dict, fail: dict, budget_s: float):
    from simgriffe.props import get_prop

    prop = get_prop(prop_id)
    known = load_known_findings(prop_id)
    return shrink(prop, plan, fail, known, budget_s=budget_s)


# ------------------------------------------------------------------------------------------------
# Replay


def write_replay(prop_id: str, seed: int, plan: dict, fail: dict, orig_plan: dict, events: list | None) -> Path:
    REPLAY_DIR.mkdir(exist_ok=True)
    path = REPLAY_DIR / f"{prop_id}-{seed}.json"
    path.write_text(
        json.dumps(
            {
                "property": prop_id,
                "seed": seed,
                "signature": fail["sig"],
                "sig_class": sig_class(fail),
                "failure": fail,
                "plan": plan,
                "original_plan_size": plan_size(orig_plan),
                "minimised_plan_size": plan_size(plan),
                "events": events,
            },
            indent=1,
            default=str,
        )
    )
    return path


def replay_file(prop, path: Path, verbose: bool = True) -> int:
    data = json.loads(Path(path).read_text())
    known = load_known_findings(prop.ID)
    ctx = run_plan(prop, data["plan"], keep_log=True)
    if verbose:
        for line in ctx.events or []:
            print("  ", line[:400])
    cls = data.get("sig_class")
    for f in ctx.failures:
        if match_known(f, known) is not None:
            print(f"KNOWN-FINDING: property={prop.ID} {f['sig']}")
            continue
        if cls is None or sig_class(f) == cls:
            print(f"reproduced: {f['sig']}\n  {f['msg']}")
            print(f"VIOLATION property={prop.ID} replay={path}")
            return EXIT_VIOLATION
        print(f"different failure: {f['sig']}\n  {f['msg']}")
        print(f"VIOLATION property={prop.ID} replay={path}")
        return EXIT_VIOLATION
    print("replay did not reproduce a violation")
    return EXIT_OK


def replay_in_fresh_process(prop_id: str, path: Path) -> tuple[bool, str]:
    env = dict(os.environ)
    env["PYTHONHASHSEED"] = "12345"
    p = subprocess.run(
        [sys.executable, "-m", "simgriffe.cli", prop_id, "--replay", str(path), "--quiet"],
        capture_output=True,
        text=True,
        env=env,
        timeout=600,
        cwd=str(VERIF_DIR),
    )
    return p.returncode == EXIT_VIOLATION, (p.stdout + p.stderr)[-2000:]


# ------------------------------------------------------------------------------------------------
# Determinism self-test


def determinism_selftest(prop_id: str, batch_seed: int, n: int, jobs: int, opts: dict) -> dict:
    """Same seeds: twice with different worker counts/chunking in-process pools, once in a fresh interpreter
    under another PYTHONHASHSEED.  All digests must agree."""
    o = dict(opts)
    o["digests"] = True
    o["max_unknown"] = 1 << 60
    o["chunk"] = 50
    a = run_batch(prop_id, batch_seed, n, jobs, 600, o)
    o2 = dict(o)
    o2["chunk"] = 17
    b = run_batch(prop_id, batch_seed, n, max(1, jobs // 3), 600, o2)
    da, db = dict(a["digests"]), dict(b["digests"])
    env = dict(os.environ)
    env["PYTHONHASHSEED"] = "987"
    n_fresh = min(n, opts.get("fresh_n", 60))
    p = subprocess.run(
        [sys.executable, "-m", "simgriffe.cli", prop_id, "--emit-digests", str(n_fresh), "--seed", str(batch_seed)],
        capture_output=True,
        text=True,
        env=env,
        timeout=900,
        cwd=str(VERIF_DIR),
    )
    if p.returncode != 0:
        raise HarnessError(f"fresh-interpreter digest run failed: {p.stderr[-1500:]}")
    dc = {int(k): v for k, v in json.loads(p.stdout.strip().splitlines()[-1]).items()}
    if set(da) != set(db):
        raise HarnessError(f"determinism self-test: runs missing ({len(da)} vs {len(db)} digests)")
    mism = [s for s in da if da[s] != db.get(s)]
    mism += [s for s in dc if dc[s] != da.get(s)]
    if a["harness"] or b["harness"]:
        raise HarnessError("harness exception during determinism self-test: " + (a["harness"] + b["harness"])[0]["tb"])
    return {
        "seeds": len(da),
        "runs_compared": len(da) + len(db) + len(dc),
        "fresh_interpreter_seeds": len(dc),
        "mismatches": sorted(set(mism))[:10],
    }


# ------------------------------------------------------------------------------------------------
# Check driver


def sweep_scratch() -> None:
    """Remove scratch directories left on tmpfs by workers that no longer exist (crashed or killed runs)."""
    import glob
    import shutil

    for d in glob.glob("/dev/shm/simgriffe-*") + glob.glob("/tmp/simgriffe-*"):
        tail = d.rsplit("-", 1)[-1]
        if tail.isdigit() and not os.path.exists(f"/proc/{tail}"):
            shutil.rmtree(d, ignore_errors=True)


def run_check(prop_id: str, tier: str, batch_seed: int, jobs: int, n_runs: int | None, wall_cap: float | None) -> int:
    try:
        return _run_check(prop_id, tier, batch_seed, jobs, n_runs, wall_cap)
    finally:
        sweep_scratch()


def _run_check(prop_id: str, tier: str, batch_seed: int, jobs: int, n_runs: int | None, wall_cap: float | None) -> int:
    from simgriffe.props import get_prop

    sweep_scratch()
    assert_repo_under_test()
    prop = get_prop(prop_id)
    cfg = prop.TIERS[tier]
    n_runs = n_runs or cfg["runs"]
    wall_cap = wall_cap or cfg["wall"]
    opts = dict(prop.OPTS)
    t_start = time.monotonic()
    known_entries = load_known_findings(prop_id)

    try:
        det = determinism_selftest(prop_id, batch_seed, cfg.get("det_n", 100), jobs, opts)
        nondeterministic = bool(det["mismatches"])
        if nondeterministic:
            # Either the simulator has a leak, or the code under test carries state from one run to the next inside
            # a process (a cache mutated in place, a module-level default).  The batch still runs: a violation that
            # replays in a fresh process is reported as such; without one the check ends as a harness error.
            print(f"HARNESS-ERROR: nondeterministic runs for seeds {det['mismatches']} (same seed, different event log)")
        total = run_batch(prop_id, batch_seed, n_runs, jobs, wall_cap, opts)
    except HarnessError as e:
        print(f"HARNESS-ERROR: {e}")
        return EXIT_HARNESS
    if total["harness"]:
        print(f"HARNESS-ERROR: {len(total['harness'])} runs raised inside the simulator; first:")
        print(total["harness"][0]["tb"])
        return EXIT_HARNESS

    # Known findings: one line each.
    for e in known_entries:
        c = total["known"].get(e["id"], 0)
        if c:
            print(f"KNOWN-FINDING: property={prop_id} {e['id']}: {e['what']} (seen in {c} runs)")

    # Unknown failures: group by signature class; pick a representative that reproduces on its own in a fresh
    # process (a failure can also be the echo of state left behind by an earlier run of the same worker), shrink it,
    # replay the minimised plan fresh, report.
    violations = []
    groups: dict[str, list] = {}
    for u in total["unknown"]:
        if u["plan"] is None:
            continue
        groups.setdefault(sig_class(u["failure"]), [])
        if len(groups[sig_class(u["failure"])]) < 6:
            groups[sig_class(u["failure"])].append(u)
    harness_failed = None
    if groups:
        chosen = {}
        for cls, cands in list(groups.items())[:6]:
            for u in cands:
                path = write_replay(prop_id, u["seed"], u["plan"], u["failure"], u["plan"], None)
                ok, out = replay_in_fresh_process(prop_id, path)
                if ok:
                    chosen[cls] = u
                    break
            else:
                harness_failed = (cands[0], out)
        ctx_mp = multiprocessing.get_context("fork")
        if chosen:
            with ProcessPoolExecutor(max_workers=min(jobs, len(chosen)), mp_context=ctx_mp, initializer=_worker_init) as pool:
                futs = {cls: pool.submit(_shrink_task, prop_id, u["plan"], u["failure"], cfg.get("shrink_s", 45)) for cls, u in chosen.items()}
                for cls, fut in futs.items():
                    u = chosen[cls]
                    try:
                        best, best_fail, execs = fut.result(timeout=cfg.get("shrink_s", 45) * 3 + 60)
                    except Exception as e:  # noqa: BLE001
                        print(f"shrinking failed ({e!r}); reporting the unshrunk plan")
                        best, best_fail, execs = u["plan"], u["failure"], 0
                    ctx = None
                    try:
                        ctx = run_plan(prop, best, keep_log=True) if prop.REPLAY_IN_PARENT else None
                    except BaseException:  # noqa: BLE001
                        ctx = None
                    path = write_replay(prop_id, u["seed"], best, best_fail, u["plan"], ctx.events if ctx else None)
                    ok, out = replay_in_fresh_process(prop_id, path)
                    if not ok:
                        # the minimised plan does not stand on its own: fall back to the unshrunk one (which does)
                        path = write_replay(prop_id, u["seed"], u["plan"], u["failure"], u["plan"], None)
                        best_fail, execs = u["failure"], 0
                    violations.append((path, best_fail, execs))
    if harness_failed is not None and not violations:
        u, out = harness_failed
        print(f"HARNESS-ERROR: failure {u['failure']['sig']} (seed {u['seed']}) did not replay in a fresh process")
        print(out)
        return EXIT_HARNESS
    for path, f, execs in violations:
        print(f"violation: {f['sig']}\n  {f['msg']}\n  (minimised with {execs} executions)")
        print(f"VIOLATION property={prop_id} replay={path}")

    wall = time.monotonic() - t_start
    write_evidence(prop, tier, batch_seed, total, det, wall, len(violations), known_entries, n_runs)
    rate = total["n"] / max(total["wall"], 1e-9) * 3600
    print(
        f"{prop_id} {tier}: {total['n']} runs ({rate:,.0f}/h), {len(total['cover'])} distinct non-trivial, "
        f"faults fired {sum(total['faults'].values())}, known-finding hits {sum(total['known'].values())}, "
        f"violations {len(violations)}, wall {wall:.1f}s" + (" [wall cap reached]" if total["capped"] else "")
    )
    if violations:
        return EXIT_VIOLATION
    return EXIT_HARNESS if nondeterministic else EXIT_OK


def write_evidence(prop, tier, batch_seed, total, det, wall, n_viol, known_entries, n_planned):
    EVIDENCE_DIR.mkdir(exist_ok=True)
    ev = {
        "property_id": prop.ID,
        "tier": tier,
        "seed": batch_seed,
        "level": "exploration",
        "coverage": {
            "evaluations": total["n"],
            "distinct_nontrivial": len(total["cover"]),
            "rule": prop.RULE,
            "samples": total["samples"][:3],
            "runs_planned": n_planned,
            "wall_cap_reached": total["capped"],
            "runs_per_hour": round(total["n"] / max(total["wall"], 1e-9) * 3600),
            "seeds": [seed_for(batch_seed, 0), seed_for(batch_seed, max(total["n"] - 1, 0))],
            "nontrivial_runs": total["nontrivial"],
            "logical_steps": total["steps"],
            "events_logged": total["events"],
            "simulated_time": "n/a - the code under test reads no clock for this property; progress is counted in logical steps",
            "faults_fired": dict(sorted(total["faults"].items())),
            "probes": dict(sorted(total["probes"].items())),
            "components": prop.COMPONENTS,
            "determinism_selftest": det,
            "known_findings_seen": {e["id"]: total["known"].get(e["id"], 0) for e in known_entries},
        },
        "assumptions": prop.ASSUMPTIONS,
        "wall_s": round(wall, 2),
        "violations": n_viol,
    }
    (EVIDENCE_DIR / f"{prop.ID}.json").write_text(json.dumps(ev, indent=1, default=str) + "\n")
