"""Seams owned by the simulator.  All are installed by patching module attributes in the worker process.

* ListingSeam   - os.scandir / os.listdir: the order in which directory entries are reported is decided by the plan
                  (os.walk uses the module-global scandir, Path.iterdir uses os.listdir in CPython 3.12;
                  importlib's FileFinder uses its own _os.listdir and is deliberately NOT perturbed, so that the
                  CPython oracle stays independent of the injected order).
* ReadSeam      - pathlib.Path.read_text: OSError / undecodable bytes / truncated read, for chosen files.
* World         - a tree of files on tmpfs built from the plan, removed afterwards.
"""

from __future__ import annotations

import hashlib
import os
import pathlib
import shutil
import sys
from contextlib import contextmanager

_real_scandir = os.scandir
_real_listdir = os.listdir
_real_read_text = pathlib.Path.read_text

SHM = "/dev/shm" if os.path.isdir("/dev/shm") else "/tmp"


def _stem(name: str) -> str:
    for suf in (".pyi", ".py", ".pyc", ".pyd", ".so"):
        if name.endswith(suf):
            base = name[: -len(suf)]
            # compiled modules look like `name.cpython-312-x86_64-linux-gnu.so`
            return base.split(".", 1)[0] if suf in (".so", ".pyd", ".pyc") else base
    return name


def _order(names: list[str], schedule: dict, rel: str) -> list[str]:
    if "stub_first" in schedule:
        # order stems by the base schedule; inside one stem put x.pyi before or after x.py.
        # Two schedules with the same base differ only in which file of each (module, stubs) pair is met first.
        stems = _order(sorted({_stem(n) for n in names}), schedule["base"], rel)
        rank = {st: i for i, st in enumerate(stems)}
        stub_first = bool(schedule["stub_first"])
        return sorted(names, key=lambda n: (rank[_stem(n)], 0 if n.endswith(".pyi") == stub_first else 1, n))
    mode = schedule.get("mode", "sorted")
    if mode == "sorted":
        return sorted(names)
    if mode == "reversed":
        return sorted(names, reverse=True)
    if mode == "pyi_first":  # stubs (and other longer suffixes) before sources
        return sorted(names, key=lambda n: (0 if n.endswith(".pyi") else 1, n))
    if mode == "py_first":
        return sorted(names, key=lambda n: (1 if n.endswith(".pyi") else 0, n))
    key = str(schedule.get("key", 0))
    return sorted(names, key=lambda n: hashlib.blake2b(f"{key}/{rel}/{n}".encode(), digest_size=8).digest())


class _ScandirIt:
    def __init__(self, entries):
        self._it = iter(entries)

    def __iter__(self):
        return self

    def __next__(self):
        return next(self._it)

    def __enter__(self):
        return self

    def __exit__(self, *a):
        return False

    def close(self):
        pass


class ListingSeam:
    def __init__(self, root: str, schedule: dict, ctx=None):
        self.root = os.path.realpath(root)
        self.schedule = schedule
        self.ctx = ctx
        self.decisions = 0  # listings that had >= 2 entries, i.e. a real choice of order

    def _rel(self, path) -> str | None:
        p = os.path.realpath(os.fspath(path))
        if p == self.root or p.startswith(self.root + os.sep):
            return os.path.relpath(p, self.root)
        return None

    def scandir(self, path="."):
        rel = self._rel(path) if not isinstance(path, int) else None
        if rel is None:
            return _real_scandir(path)
        with _real_scandir(path) as it:
            entries = {e.name: e for e in it}
        names = _order(list(entries), self.schedule, rel)
        if len(names) > 1:
            self.decisions += 1
        if self.ctx is not None:
            self.ctx.log("scandir", (rel, tuple(names)))
        return _ScandirIt([entries[n] for n in names])

    def listdir(self, path="."):
        rel = self._rel(path) if not isinstance(path, int) else None
        if rel is None:
            return _real_listdir(path)
        names = _order(_real_listdir(path), self.schedule, rel)
        if len(names) > 1:
            self.decisions += 1
        if self.ctx is not None:
            self.ctx.log("listdir", (rel, tuple(names)))
        return names

    @contextmanager
    def installed(self):
        os.scandir, os.listdir = self.scandir, self.listdir
        try:
            yield self
        finally:
            os.scandir, os.listdir = _real_scandir, _real_listdir


class ReadSeam:
    """faults: list of {"file": relpath, "kind": "oserror"|"undecodable"|"truncated", "nth": k} (nth read of that file)."""

    def __init__(self, root: str, faults: list[dict], ctx=None):
        self.root = os.path.realpath(root)
        self.faults = faults
        self.ctx = ctx
        self.reads: dict[str, int] = {}
        self.read_log: list[str] = []

    def read_text(seam, self, *args, **kwargs):  # noqa: N805 - bound as Path.read_text
        p = os.path.realpath(os.fspath(self))
        if not (p == seam.root or p.startswith(seam.root + os.sep)):
            return _real_read_text(self, *args, **kwargs)
        rel = os.path.relpath(p, seam.root)
        n = seam.reads.get(rel, 0)
        seam.reads[rel] = n + 1
        seam.read_log.append(rel)
        for f in seam.faults:
            if f["file"] == rel and f.get("nth", 0) in (n, -1):
                kind = f["kind"]
                if seam.ctx is not None:
                    seam.ctx.fault("read-" + kind)
                if kind == "oserror":
                    raise OSError(5, "Input/output error (injected)", p)
                if kind == "undecodable":
                    return b"\xff\xfe\xfd x = 1\n".decode(kwargs.get("encoding") or "utf8")
                text = _real_read_text(self, *args, **kwargs)
                return text[: max(1, (len(text) * 2) // 3)]
        return _real_read_text(self, *args, **kwargs)

    @contextmanager
    def installed(self):
        seam = self

        def patched(self, *args, **kwargs):
            return seam.read_text(self, *args, **kwargs)

        pathlib.Path.read_text = patched
        try:
            yield self
        finally:
            pathlib.Path.read_text = _real_read_text


_world_counter = 0


def _expand_pads(content: str) -> str:
    """`<PAD:n>` stands for a comment block of about n characters (licence headers, generated tables): scale that does
    not belong in a plan or replay file."""
    import re

    def pad(m):
        line = "# Licensed under the terms of the licence; see the file LICENCE for the full text of it.\n"
        return line * (int(m.group(1)) // len(line) + 1)

    return re.sub(r"<PAD:(\d+)>\n?", pad, content)


class World:
    """Files on tmpfs.  `search_paths` is a list of {relative path: content-or-None(dir)-or-bytes}."""

    def __init__(self, search_paths: list[dict], tag: str = "w", names: list[str] | None = None):
        global _world_counter
        _world_counter += 1
        self.root = os.path.join(SHM, f"simgriffe-{os.getpid()}", f"{tag}{_world_counter}")
        if os.path.exists(self.root):
            shutil.rmtree(self.root)
        self.sp_dirs = []
        links = []
        for i, files in enumerate(search_paths):
            sp = os.path.join(self.root, names[i] if names and i < len(names) else f"sp{i}")
            os.makedirs(sp, exist_ok=True)
            self.sp_dirs.append(sp)
            for rel, content in files.items():
                full = os.path.join(sp, rel)
                if content is None:
                    os.makedirs(full, exist_ok=True)
                    continue
                if isinstance(content, dict) and "symlink" in content:
                    links.append((full, content["symlink"]))
                    continue
                os.makedirs(os.path.dirname(full), exist_ok=True)
                if isinstance(content, bytes):
                    if b"<ROOT>" in content:
                        content = content.replace(b"<ROOT>", self.root.encode())
                    with open(full, "wb") as fh:
                        fh.write(content)
                else:
                    if "<PAD:" in content:
                        content = _expand_pads(content)
                    if "<RELSP" in content:
                        # a search-path directory named relatively to the directory of the file that mentions it
                        for j in range(len(search_paths)):
                            other = os.path.join(self.root, names[j] if names and j < len(names) else f"sp{j}")
                            content = content.replace(f"<RELSP{j}>", os.path.relpath(other, sp))
                    if "<SP" in content or "<ROOT>" in content:
                        for j in range(len(search_paths)):
                            content = content.replace(f"<SP{j}>", os.path.join(self.root, names[j] if names and j < len(names) else f"sp{j}"))
                        content = content.replace("<ROOT>", self.root)
                    with open(full, "w", encoding="utf8") as fh:
                        fh.write(content)

        for full, target in links:  # relative targets, created last so that the targets exist
            os.makedirs(os.path.dirname(full), exist_ok=True)
            if not os.path.lexists(full):
                os.symlink(target, full)

    def norm(self, text: str) -> str:
        return text.replace(self.root, "<W>")

    def cleanup(self):
        shutil.rmtree(self.root, ignore_errors=True)
        parent = os.path.dirname(self.root)
        try:
            os.rmdir(parent)
        except OSError:
            pass

    def __enter__(self):
        return self

    def __exit__(self, *a):
        self.cleanup()
        return False


def purge_modules(prefixes, keep=()):
    """Remove analysed-code residue from the interpreter between operations (by top-level name)."""
    import importlib

    for name in list(sys.modules):
        top = name.split(".", 1)[0]
        if top in prefixes and name not in keep:
            del sys.modules[name]
    importlib.invalidate_caches()
