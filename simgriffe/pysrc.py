"""Structural model of module contents and its rendering to Python source (used by several machines).

member :=
  {"k": "func",  "name", "params": [[name, ann|None, has_default]], "ret": ann|None, "doc": str|None}
  {"k": "class", "name", "doc", "members": [member...]}
  {"k": "attr",  "name", "ann": ann|None, "value": str|None, "doc": str|None}
  {"k": "import","name", "from": "pkg.mod", "orig": name}
  {"k": "overloads", "name", "sigs": [{"params": [...], "ret": ann}], "impl": {"params","ret","doc"} | None}
"""

from __future__ import annotations

ANNS = ["int", "str", "float", "bytes", "list[int]", "dict[str, int]", "int | None", "None"]


def render_params(params):
    """params: [name, annotation, has_default, kind?] with kind in {None, "po", "kw", "var", "varkw"} (positional-only,
    keyword-only, *name, **name); grouped in the order Python demands, `/` and `*` inserted as needed."""

    def one(p, prefix="", default_ok=True, force_default=False):
        name, ann, has_default = p[0], p[1], p[2]
        s = prefix + name
        if ann is not None:
            s += f": {ann}"
        if default_ok and (has_default or force_default):
            s += " = 0" if ann is not None else "=0"
        return s

    kind = lambda p: p[3] if len(p) > 3 else None  # noqa: E731
    po = [p for p in params if kind(p) == "po"]
    normal = [p for p in params if kind(p) is None]
    var = [p for p in params if kind(p) == "var"][:1]
    kw = [p for p in params if kind(p) == "kw"]
    varkw = [p for p in params if kind(p) == "varkw"][:1]
    if not po and not var and not kw and not varkw:
        return ", ".join(one(p) for p in params)
    # `self` stays first
    if normal and normal[0][0] == "self":
        po = [normal[0]] + po if po else po
        if po and po[0][0] == "self":
            normal = normal[1:]
    out = []
    seen_default = False
    for p in po + normal:
        seen_default = seen_default or p[2]
        out.append(one(p, force_default=seen_default))
        if po and p is po[-1]:
            out.append("/")
    if var:
        out.append(one(var[0], prefix="*", default_ok=False))
    elif kw:
        out.append("*")
    out += [one(p) for p in kw]
    if varkw:
        out.append(one(varkw[0], prefix="**", default_ok=False))
    return ", ".join(out)


def param_order(params):
    """The order in which render_params writes the parameters (groups by kind)."""
    kind = lambda p: p[3] if len(p) > 3 else None  # noqa: E731
    if all(kind(p) is None for p in params):
        return list(params)
    po = [p for p in params if kind(p) == "po"]
    normal = [p for p in params if kind(p) is None]
    if normal and normal[0][0] == "self" and po:
        po, normal = [normal[0]] + po, normal[1:]
    return po + normal + [p for p in params if kind(p) == "var"][:1] + [p for p in params if kind(p) == "kw"] + [p for p in params if kind(p) == "varkw"][:1]


def _doc_lines(doc, ind):
    if doc is None:
        return []
    return [f'{ind}"""{doc}"""']


def render_func(name, params, ret, doc, ind, stub, decorator=None):
    lines = []
    if decorator:
        lines.append(f"{ind}@{decorator}")
    sig = f"{ind}def {name}({render_params(params)})"
    if ret is not None:
        sig += f" -> {ret}"
    lines.append(sig + ":")
    lines += _doc_lines(doc, ind + "    ")
    lines.append(f"{ind}    ..." if stub else f"{ind}    return None")
    return lines


def render_members(members, ind="", stub=False):
    lines = []
    for m in members:
        if m.get("guard"):
            # defined under `if TYPE_CHECKING:` - not available at runtime
            inner = render_members([{**m, "guard": False}], ind + "    ", stub)
            lines.append(f"{ind}if TYPE_CHECKING:")
            lines += inner
            continue
        k = m["k"]
        if k == "func":
            for sig in m.get("rt_overloads", []):  # a runtime module that declares its own @overload signatures
                lines += render_func(m["name"], sig["params"], sig["ret"], None, ind, True, decorator="overload")
            lines += render_func(m["name"], m["params"], m["ret"], m["doc"], ind, stub, decorator=m.get("deco"))
            for acc in m.get("accessors", []):  # property setter / deleter
                params = [["self", None, False]] + ([["value", m["ret"], False]] if acc == "setter" else [])
                lines += render_func(m["name"], params, "None", None, ind, stub, decorator=f"{m['name']}.{acc}")
        elif k == "overloads":
            for sig in m["sigs"]:
                lines += render_func(m["name"], sig["params"], sig["ret"], None, ind, True, decorator="overload")
            if m.get("impl"):
                impl = m["impl"]
                lines += render_func(m["name"], impl["params"], impl["ret"], impl.get("doc"), ind, stub)
        elif k == "class":
            bases = f"({', '.join(m['bases'])})" if m.get("bases") else ""
            lines.append(f"{ind}class {m['name']}{bases}:")
            body = _doc_lines(m["doc"], ind + "    ") + render_members(m["members"], ind + "    ", stub)
            lines += body or [f"{ind}    pass"]
        elif k == "attr":
            if m["ann"] is not None and m["value"] is not None:
                lines.append(f"{ind}{m['name']}: {m['ann']} = {m['value']}")
            elif m["ann"] is not None:
                lines.append(f"{ind}{m['name']}: {m['ann']}")
            else:
                lines.append(f"{ind}{m['name']} = {m['value'] if m['value'] is not None else 0}")
            lines += _doc_lines(m["doc"], ind)
        elif k == "import":
            if m["orig"] == m["name"]:
                lines.append(f"{ind}from {m['from']} import {m['name']}")
            else:
                lines.append(f"{ind}from {m['from']} import {m['orig']} as {m['name']}")
        elif k == "star":
            lines.append(f"{ind}from {m['from']} import *")
        elif k == "raw":
            lines += [ind + ln for ln in m["lines"]]
        lines.append("")
    return lines


def render_module(doc, members, stub=False, header=()):
    lines = []
    lines += _doc_lines(doc, "")
    lines += list(header)
    if any(m["k"] == "overloads" or m.get("rt_overloads") for m in _walk(members)):
        lines.append("from typing import overload")
    if any(m.get("guard") for m in _walk(members)):
        lines.append("from typing import TYPE_CHECKING")
    lines.append("")
    lines += render_members(members, "", stub)
    return "\n".join(lines) + "\n"


def _walk(members):
    for m in members:
        yield m
        if m["k"] == "class":
            yield from _walk(m["members"])
