from __future__ import annotations

import argparse
import json
import os
import sys

from simgriffe import core


def main(argv=None) -> int:
    ap = argparse.ArgumentParser(prog="check")
    ap.add_argument("prop", help="property id (C06, C14, C15, C16, C19, C20) or 'setup'")
    ap.add_argument("--tier", default=os.environ.get("VERIF_TIER", "quick"), choices=["quick", "thorough"])
    ap.add_argument("--seed", type=int, default=int(os.environ.get("VERIF_SEED", "0") or 0))
    ap.add_argument("--jobs", type=int, default=int(os.environ.get("VERIF_JOBS", "0") or 0) or (os.cpu_count() or 4))
    ap.add_argument("--runs", type=int, default=None)
    ap.add_argument("--wall", type=float, default=None)
    ap.add_argument("--replay", default=None)
    ap.add_argument("--quiet", action="store_true")
    ap.add_argument("--emit-digests", type=int, default=None)
    ap.add_argument("--one", type=int, default=None, help="run a single seed index verbosely")
    args = ap.parse_args(argv)

    if args.prop == "setup":
        src = core.assert_repo_under_test()
        print(f"simgriffe ready; code under test: {src}")
        return 0

    from simgriffe.props import get_prop

    try:
        core.assert_repo_under_test()
    except core.HarnessError as e:
        print(f"HARNESS-ERROR: {e}")
        return core.EXIT_HARNESS
    prop = get_prop(args.prop)
    sys.setrecursionlimit(1000)
    core.quiet_logs()

    if args.replay:
        return core.replay_file(prop, args.replay, verbose=not args.quiet)
    if args.emit_digests is not None:
        out = {}
        for i in range(args.emit_digests):
            seed = core.seed_for(args.seed, i)
            plan = core.generate(prop, seed, prop.OPTS.get("gen"))
            out[seed] = core.run_plan(prop, plan).digest()
        print(json.dumps(out))
        return 0
    if args.one is not None:
        seed = core.seed_for(args.seed, args.one)
        plan = core.generate(prop, seed, prop.OPTS.get("gen"))
        print(json.dumps(plan, indent=1, default=str))
        ctx = core.run_plan(prop, plan, keep_log=True)
        for line in ctx.events:
            print("  ", line[:300])
        for f in ctx.failures:
            print("FAIL", f["sig"], "\n   ", f["msg"])
        return 0
    return core.run_check(args.prop, args.tier, args.seed, args.jobs, args.runs, args.wall)


if __name__ == "__main__":
    sys.exit(main())
