#!/bin/bash
# tools/seeded.sh <id> <worktree> <PROP> [runs]
# Take an independently written change from a scratch worktree (<worktree>/SEEDED/{patch.diff,demo.py,notes.md}),
# confirm it (suite still green with the change, demo fails with it and passes without), run the property's check
# against a tmpfs copy of /repo/src with the patch applied, and store everything under /verif/seeded/<id>/.
set -u
id="$1"; wt="$2"; prop="$3"; runs="${4:-}"
dst="/verif/seeded/$id"; mkdir -p "$dst"
if [ -z "${KEEP_PATCH:-}" ]; then cp "$wt/SEEDED/patch.diff" "$dst/" || exit 2; fi; cp "$wt/SEEDED/demo.py" "$dst/" || exit 2
[ -f "$wt/SEEDED/notes.md" ] && cp "$wt/SEEDED/notes.md" "$dst/"
work="/dev/shm/simgriffe-seeded-$$"; rm -rf "$work"; mkdir -p "$work"
rsync -a --exclude __pycache__ --exclude .git /repo/src /repo/tests /repo/config /repo/pyproject.toml /repo/docs /repo/mkdocs.yml /repo/README.md /repo/CHANGELOG.md /repo/duties.py /repo/scripts "$work/" 2>/dev/null
# demo on the unchanged tree
(cd "$work" && PYTHONPATH="$work/src" timeout 300 /venv/bin/python "$dst/demo.py" >"$dst/demo-unchanged.out" 2>&1); rc_clean=$?
(cd "$work" && patch -p1 -s --no-backup-if-mismatch < "$dst/patch.diff") || { echo "PATCH-FAILED"; rm -rf "$work"; exit 2; }
(cd "$work" && PYTHONPATH="$work/src" timeout 300 /venv/bin/python "$dst/demo.py" >"$dst/demo-changed.out" 2>&1); rc_mut=$?
suite=$(cd "$work" && PYTHONPATH="$work/src" timeout 900 /venv/bin/python -m pytest -q -p no:cacheprovider -p no:randomly 2>&1 | tail -1)
rm -rf "$work"
if [ -z "$runs" ]; then case "$prop" in C16) runs=150000;; C19) runs=12000;; C14) runs=8000;; C06) runs=20000;; C15) runs=5000;; C20) runs=2500;; esac; fi
out=$(/verif/tools/mutants.sh "$prop" "$dst/patch.diff" --runs "$runs" 2>&1)
verdict=$(echo "$out" | tail -1)
echo "$out" | grep -E "^(violation|VIOLATION)" | head -6 > "$dst/check.out"
echo "$verdict" >> "$dst/check.out"
echo "id=$id demo_unchanged_rc=$rc_clean demo_changed_rc=$rc_mut suite='$suite' :: $verdict"
/venv/bin/python - "$id" "$prop" "$rc_clean" "$rc_mut" "$suite" "$verdict" "$runs" <<'PY'
import json, sys, pathlib
id_, prop, rc_clean, rc_mut, suite, verdict, runs = sys.argv[1:]
d = pathlib.Path("/verif/seeded", id_)
notes = (d / "notes.md").read_text() if (d / "notes.md").exists() else ""
meta = {
 "id": id_, "property": prop, "origin": "written by an independent sub-agent that saw only the property text and a scratch worktree",
 "needs_to_manifest": "see notes.md",
 "confirmed": {"suite_with_change": suite, "demo_rc_unchanged_tree": int(rc_clean), "demo_rc_with_change": int(rc_mut)},
 "ran": f"tools/mutants.sh {prop} seeded/{id_}/patch.diff --runs {runs} (tmpfs copy of /repo/src with the patch applied, VERIF_REPO_SRC pointing at it)",
 "check_verdict": verdict,
}
(d / "meta.json").write_text(json.dumps(meta, indent=1) + "\n")
PY
