"""Development tool: minimise one run that hits a given known finding and store it as its example replay.
usage: make_example.py PROP KF_ID OUT [max_seeds]"""
import json, sys
from simgriffe import core
from simgriffe.props import get_prop

prop = get_prop(sys.argv[1]); kf_id = sys.argv[2]; out = sys.argv[3]; n = int(sys.argv[4]) if len(sys.argv) > 4 else 5000
known = core.load_known_findings(prop.ID)
entry = next(e for e in known if e["id"] == kf_id)
others = [e for e in known if e["id"] != kf_id]
for i in range(n):
    seed = core.seed_for(0, i)
    plan = core.generate(prop, seed, prop.OPTS.get("gen"))
    ctx = core.run_plan(prop, plan)
    f = next((f for f in ctx.failures), None)
    if f is None or core.match_known(f, [entry]) is None or core.match_known(f, others) is not None:
        continue
    # shrink while the failure still matches this entry (and only this one)
    def still(p):
        try:
            c = core.run_plan(prop, p)
        except BaseException:
            return None
        g = next((g for g in c.failures), None)
        if g is not None and core.match_known(g, [entry]) is not None and core.match_known(g, others) is None and g["inv"] == f["inv"]:
            return g
        return None
    best, bf = plan, f
    improved = True; execs = 0
    while improved and execs < 3000:
        improved = False
        for cand in prop.shrink_candidates(best):
            if core.plan_size(cand) >= core.plan_size(best):
                continue
            execs += 1
            g = still(cand)
            if g is not None:
                best, bf, improved = cand, g, True
                break
    ctx = core.run_plan(prop, best, keep_log=True)
    json.dump({"property": prop.ID, "seed": seed, "known_finding": kf_id, "signature": bf["sig"], "sig_class": core.sig_class(bf),
               "failure": bf, "plan": best, "events": ctx.events}, open(out, "w"), indent=1, default=str)
    print("wrote", out, bf["sig"], bf["msg"][:200])
    break
else:
    print("no run hit", kf_id)
