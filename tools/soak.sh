#!/bin/bash
# tools/soak.sh [seeds...] : run every quick check under several VERIF_SEED values (default 1 2 3) on the unchanged tree.
# A VIOLATION or HARNESS line here is an alarm on the unchanged tree: triage before committing generator/oracle changes.
cd /verif
seeds="${*:-1 2 3}"
for sd in $seeds; do
  for P in C06 C14 C15 C16 C19 C20; do
    out=$(VERIF_SEED=$sd VERIF_EVIDENCE_DIR=/dev/shm/simgriffe-soak-evidence ./check $P --quiet 2>&1); rc=$?
    echo "$out" | grep -E "^(violation|VIOLATION|HARNESS|C[0-9]+ quick)" | cut -c1-240 | sed "s/^/seed=$sd rc=$rc /"
  done
done
rm -rf /dev/shm/simgriffe-soak-evidence
