#!/bin/bash
# For every "fixed:" line of known_findings.json, try to revert that fix commit on top of /repo HEAD in a scratch
# worktree; where the revert applies cleanly, store it as mutants/<PROP>-revert-<hash>.patch (the pre-fix behaviour).
cd /verif
find mutants -name "*-revert-*.patch" ! -name "*-manual.patch" -delete
wt=/tmp/wt-revert-$$
git -C /repo worktree add -q --detach $wt HEAD || exit 2
/venv/bin/python - <<'PY' > /tmp/fixed-list.txt
import json,re
for line in json.load(open('/verif/known_findings.json'))['fixed']:
    m=re.match(r"fixed: property=(C\d+) ([0-9a-f]{7,})", line)
    if m: print(m.group(1), m.group(2))
PY
while read prop h; do
  git -C $wt reset -q --hard HEAD
  if git -C $wt revert -n $h >/dev/null 2>&1; then
    git -C $wt diff HEAD -- src > mutants/$prop-revert-$h.patch
    echo "ok   $prop $h $(git -C /repo log --format=%s -1 $h | cut -c1-70)"
  else
    git -C $wt revert --abort >/dev/null 2>&1; git -C $wt reset -q --hard HEAD
    echo "skip $prop $h (does not revert cleanly)"
  fi
done < /tmp/fixed-list.txt
git -C /repo worktree remove --force $wt
