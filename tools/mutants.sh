#!/bin/bash
# Sensitivity self-test (development tool, not a registered check):
#   tools/mutants.sh <PROP> <patch-file> [extra ./check args]
# Copies /repo/src to tmpfs, applies the patch there, runs the quick check against the copy, removes the copy.
# Exit 0 when the check reported a VIOLATION (mutant caught), 1 when it did not.
set -u
prop="$1"; patch="$(realpath "$2")"; shift 2
work="/dev/shm/simgriffe-mut-$$"
mkdir -p "$work" && rsync -a --exclude __pycache__ /repo/src "$work/" || exit 2
if ! (cd "$work" && patch -p1 -s --no-backup-if-mismatch < "$patch"); then echo "PATCH-FAILED $patch"; rm -rf "$work"; exit 2; fi
out="$(cd /verif && VERIF_EVIDENCE_DIR="$work/evidence" VERIF_REPO_SRC="$work/src" ./check "$prop" "$@" 2>&1)"; rc=$?
rm -rf "$work"
echo "$out" | grep -E "^(VIOLATION|violation:|KNOWN|HARNESS|C[0-9]+ )" | head -12
if [ $rc -eq 1 ]; then echo "CAUGHT $prop $(basename "$patch")"; exit 0; fi
echo "MISSED $prop $(basename "$patch") (rc=$rc)"; exit 1
