#!/bin/bash
# Run the repository's pinned baseline (guard off: no simulator env) and compare with /root/.vp/BASELINE.json stable_pass.
out=/tmp/baseline-$$.xml
(cd /repo && env -u GRIFFE_VERIF -u PYTHONPATH /venv/bin/python -m pytest -ra -q -p no:cacheprovider --timeout=900 --continue-on-collection-errors --junitxml=$out >/dev/null 2>&1)
/venv/bin/python - "$out" <<'PY'
import json, sys, xml.etree.ElementTree as ET
base = set(json.load(open("/root/.vp/BASELINE.json"))["stable_pass"])
passed = set()
for tc in ET.parse(sys.argv[1]).getroot().iter("testcase"):
    if not any(ch.tag in ("failure", "error", "skipped") for ch in tc):
        passed.add(f"{tc.get('classname')}::{tc.get('name')}")
missing = sorted(base - passed)
print(f"baseline stable_pass={len(base)} passed_now={len(passed)} missing={len(missing)}")
for m in missing[:20]: print("  MISSING", m)
sys.exit(1 if missing else 0)
PY
rc=$?; rm -f $out; exit $rc
