"""development helper: run a range of seeds of one property sequentially in this process and dump their event logs"""
import sys, json
from simgriffe import core
from simgriffe.props import get_prop
P = get_prop(sys.argv[1])
core.quiet_logs()
lo, hi = int(sys.argv[2]), int(sys.argv[3])
out = {}
for i in range(lo, hi):
    plan = core.generate(P, i, {})
    ctx = core.Ctx(keep_log=True)
    P.execute(plan, ctx)
    out[i] = [repr(e) for e in ctx.events]
json.dump(out, open(sys.argv[4], "w"))
