"""Development tool: write /verif/mutants/<name>.patch that replaces `old` by `new` in /repo/<file> (p1 format)."""
import difflib, sys, pathlib

def make(name, file, old, new, count=1):
    src = pathlib.Path("/repo", file).read_text()
    assert src.count(old) >= 1, f"{name}: pattern not found in {file}"
    mut = src.replace(old, new, count)
    diff = "".join(difflib.unified_diff(src.splitlines(True), mut.splitlines(True), f"a/{file}", f"b/{file}"))
    pathlib.Path("/verif/mutants", name + ".patch").write_text(diff)
    print("wrote", name)

if __name__ == "__main__":
    exec(pathlib.Path(sys.argv[1]).read_text())
