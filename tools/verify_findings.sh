#!/bin/bash
# Every recorded (status=known) finding must still reproduce from its example replay on the current tree;
# a finding that no longer reproduces is stale, masks regressions and has to be moved to "fixed".
cd /verif
/venv/bin/python - <<'PY' > /tmp/kf-list.txt
import json
for e in json.load(open('/verif/known_findings.json'))['findings']:
    print(e['property'], e['id'], e['example_replay'])
PY
rc=0
while read prop id replay; do
  out=$(./check "$prop" --replay "$replay" --quiet 2>&1 | tail -3)
  if echo "$out" | grep -q "KNOWN-FINDING"; then echo "ok    $id"; else echo "STALE $id :: $(echo "$out" | tail -1)"; rc=1; fi
done < /tmp/kf-list.txt
exit $rc
