#!/bin/bash
# Run every mutants/<PROP>-*.patch (or those matching $1) through tools/mutants.sh; also check that each mutant
# still passes the repository's own suite (so that it is a change the tests cannot see).
cd /verif
pat="${1:-}"
for m in mutants/*${pat}*.patch; do
  prop=$(basename "$m" | cut -d- -f1)
  case "$prop" in C16) runs=60000;; C19) runs=6000;; C14) runs=4000;; C06) runs=8000;; C15) runs=2500;; C20) runs=1200;; esac
  res=$(tools/mutants.sh "$prop" "$m" --runs $runs 2>&1 | tail -1)
  echo "$res"
done
