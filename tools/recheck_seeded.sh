#!/bin/bash
# Re-run every stored seeded change (and optionally every mutant) against the current checks; update check.out.
cd /verif
for d in seeded/*/; do
  id=$(basename "$d"); prop=${id%%-*}
  case "$prop" in C16) runs=150000;; C19) runs=12000;; C14) runs=8000;; C06) runs=25000;; C15) runs=5000;; C20) runs=2500;; esac
  out=$(tools/mutants.sh "$prop" "$d/patch.diff" --runs "$runs" 2>&1)
  echo "$out" | grep -E "^(violation|VIOLATION)" | head -6 > "$d/check.out"; echo "$out" | tail -1 >> "$d/check.out"
  v=$(echo "$out" | tail -1)
  /venv/bin/python - "$d/meta.json" "$v" <<'PY'
import json,sys
m=json.load(open(sys.argv[1])); m["check_verdict"]=sys.argv[2]; json.dump(m,open(sys.argv[1],"w"),indent=1)
PY
  echo "$id: $v :: $(head -1 $d/check.out | cut -c1-100)"
done
